//! Parallel explicit-state exploration of a scenario: every reachable (state, enabled
//! action) pair is executed once on the real code; states are deduplicated by a 128-bit
//! canonical key; monitors run on every transition.

use crate::types::*;
use crate::util::*;
use crate::world::World;
use parking_lot::Mutex;
use std::collections::{HashMap, HashSet};
use std::hash::{BuildHasherDefault, Hasher};
use std::sync::atomic::{AtomicBool, AtomicU64, AtomicUsize, Ordering};
use std::sync::Arc;

#[derive(Default)]
pub struct IdHasher(u64);
impl Hasher for IdHasher {
    fn finish(&self) -> u64 {
        self.0
    }
    fn write(&mut self, b: &[u8]) {
        for x in b {
            self.0 = (self.0 << 8) | *x as u64;
        }
    }
    fn write_u128(&mut self, v: u128) {
        self.0 = (v >> 64) as u64 ^ v as u64;
    }
    fn write_u64(&mut self, v: u64) {
        self.0 = v;
    }
}
type KeySet = HashSet<u128, BuildHasherDefault<IdHasher>>;

const SHARDS: usize = 512;

pub struct Visited {
    shards: Vec<Mutex<KeySet>>,
}
impl Visited {
    pub fn new() -> Visited {
        Visited {
            shards: (0..SHARDS).map(|_| Mutex::new(KeySet::default())).collect(),
        }
    }
    #[inline]
    pub fn insert(&self, k: u128) -> bool {
        let s = (k as usize) % SHARDS;
        self.shards[s].lock().insert(k)
    }
    pub fn len(&self) -> usize {
        self.shards.iter().map(|s| s.lock().len()).sum()
    }
}

pub struct PathNode {
    pub action: Action,
    pub parent: Option<Arc<PathNode>>,
    pub depth: u32,
}

pub fn path_of(p: &Option<Arc<PathNode>>) -> Vec<Action> {
    let mut v = vec![];
    let mut cur = p.clone();
    while let Some(n) = cur {
        v.push(n.action);
        cur = n.parent.clone();
    }
    v.reverse();
    v
}

struct Item {
    world: World,
    path: Option<Arc<PathNode>>,
    key: u128,
}

#[derive(Clone)]
pub struct RunCfg {
    pub threads: usize,
    pub budget_s: f64,
    pub max_states: u64,
    pub depth_cap: u32,
    pub seed: u64,
    /// properties whose (non-known) violation stops the search
    pub targets: Vec<&'static str>,
    pub rss_cap_gb: f64,
    /// extra per-state hook (C10 live suffix etc.)
    pub state_hook: Option<fn(&World, &mut Ctx)>,
}

#[derive(Clone, Debug)]
pub struct Found {
    pub v: Violation,
    pub path: Vec<Action>,
    pub count: u64,
}

pub struct RunResult {
    pub scenario: String,
    pub states: u64,
    pub transitions: u64,
    pub max_depth: u32,
    pub exhaustive: bool,
    pub cap_hit: Option<String>,
    pub stats: [u64; NSTAT],
    pub found: Vec<Found>,
    pub samples: Vec<Vec<Action>>,
    pub validated: u64,
    pub wall_s: f64,
    pub dead_branches: u64,
    pub machinery_error: Option<String>,
}

/// Builds the start world (boot + scripted prefix). Violations inside the prefix are
/// reported like any other (path = the prefix so far).
pub fn start_world(scen: &'static Scenario, ctx: &mut Ctx) -> Option<World> {
    let mut w = World::new(scen, ctx);
    for a in &scen.prefix {
        // scripted prefixes must be executable: a typo is a machinery error, not a verdict
        match a {
            Action::Settle | Action::Settle0(_) | Action::Isolate(_) | Action::DropAll | Action::LockTick | Action::LockDeliver => {}
            Action::Ready(i, _) | Action::ReadyAsync(i) => {
                let ok = w.live(*i as usize - 1).map(|l| l.rn.has_ready()).unwrap_or(false);
                assert!(ok, "prefix of {}: {:?} but node has no Ready", scen.name, a);
            }
            Action::Deliver(f, t) => {
                assert!(w.net.contains_key(&(*f, *t)), "prefix of {}: {:?} but link is empty", scen.name, a);
            }
            _ => {}
        }
        if !w.apply(a, ctx) {
            return None;
        }
        if std::env::var("RMC_PREFIX_TRACE").is_ok() {
            eprintln!("prefix {:?}\n{}", a, w.describe());
        }
    }
    w.end_prefix();
    Some(w)
}

pub fn rss_gb() -> f64 {
    if let Ok(s) = std::fs::read_to_string("/proc/self/statm") {
        if let Some(r) = s.split_whitespace().nth(1) {
            if let Ok(p) = r.parse::<f64>() {
                return p * 4096.0 / 1e9;
            }
        }
    }
    0.0
}

pub fn explore(scen: &'static Scenario, cfg: &RunCfg) -> RunResult {
    let t0 = std::time::Instant::now();
    let mut res = RunResult {
        scenario: scen.name.clone(),
        states: 0,
        transitions: 0,
        max_depth: 0,
        exhaustive: false,
        cap_hit: None,
        stats: [0; NSTAT],
        found: vec![],
        samples: vec![],
        validated: 0,
        wall_s: 0.0,
        dead_branches: 0,
        machinery_error: None,
    };
    let mut ctx0 = Ctx::new();
    let w0 = match start_world(scen, &mut ctx0) {
        Some(w) => w,
        None => {
            for v in ctx0.viol {
                res.found.push(Found {
                    v,
                    path: vec![],
                    count: 1,
                });
            }
            res.machinery_error = if res.found.is_empty() {
                Some("prefix died without violation".into())
            } else {
                None
            };
            res.states = 1;
            res.transitions = scen.prefix.len() as u64;
            return res;
        }
    };
    for (k, s) in ctx0.stats.iter().enumerate() {
        res.stats[k] += s;
    }
    let found: Mutex<HashMap<(String, String), Found>> = Mutex::new(HashMap::new());
    for v in ctx0.viol {
        found.lock().insert(
            (v.prop.to_string(), v.kind.clone()),
            Found {
                v,
                path: vec![],
                count: 1,
            },
        );
    }

    let visited = Visited::new();
    let k0 = w0.key();
    visited.insert(k0);
    let global: Mutex<Vec<Item>> = Mutex::new(vec![Item {
        world: w0,
        path: None,
        key: k0,
    }]);
    let pending = AtomicUsize::new(1);
    let stop = AtomicBool::new(false);
    let states = AtomicU64::new(1);
    let transitions = AtomicU64::new(0);
    let dead = AtomicU64::new(0);
    let validated = AtomicU64::new(0);
    let max_depth = AtomicU64::new(0);
    let cap_hit: Mutex<Option<String>> = Mutex::new(None);
    let mach_err: Mutex<Option<String>> = Mutex::new(None);
    let stats_total: Mutex<[u64; NSTAT]> = Mutex::new([0; NSTAT]);
    let samples: Mutex<Vec<Vec<Action>>> = Mutex::new(vec![]);
    let threads = cfg.threads.max(1);

    std::thread::scope(|sc| {
        for tid in 0..threads {
            let global = &global;
            let pending = &pending;
            let stop = &stop;
            let states = &states;
            let transitions = &transitions;
            let dead = &dead;
            let validated = &validated;
            let max_depth = &max_depth;
            let visited = &visited;
            let found = &found;
            let cap_hit = &cap_hit;
            let mach_err = &mach_err;
            let stats_total = &stats_total;
            let samples = &samples;
            let cfg = cfg.clone();
            sc.spawn(move || {
                // a panic that escapes the guards (machinery bug or an unguarded library call)
                // must stop the other workers instead of leaving them waiting for this one
                struct OnPanic<'a>(&'a AtomicBool, &'a Mutex<Option<String>>);
                impl Drop for OnPanic<'_> {
                    fn drop(&mut self) {
                        if std::thread::panicking() {
                            *self.1.lock() = Some("a worker thread panicked outside the panic guard".into());
                            self.0.store(true, Ordering::Relaxed);
                        }
                    }
                }
                let _on_panic = OnPanic(stop, mach_err);
                raft::verif::set_election_salt(0);
                let mut local: Vec<Item> = vec![];
                let mut ctx = Ctx::new();
                let mut acts: Vec<Action> = vec![];
                let mut expansions: u64 = 0;
                let mut rng = cfg.seed.wrapping_mul(0x9e3779b97f4a7c15) ^ (tid as u64 + 1);
                loop {
                    if stop.load(Ordering::Relaxed) {
                        break;
                    }
                    let item = match local.pop() {
                        Some(it) => it,
                        None => {
                            let mut g = global.lock();
                            match g.pop() {
                                Some(it) => {
                                    // grab a batch
                                    for _ in 0..3 {
                                        if let Some(x) = g.pop() {
                                            local.push(x);
                                        }
                                    }
                                    it
                                }
                                None => {
                                    drop(g);
                                    if pending.load(Ordering::Acquire) == 0 {
                                        break;
                                    }
                                    std::thread::yield_now();
                                    std::thread::sleep(std::time::Duration::from_micros(50));
                                    continue;
                                }
                            }
                        }
                    };
                    expansions += 1;
                    let depth = item.path.as_ref().map(|p| p.depth).unwrap_or(0);
                    if depth as u64 > max_depth.load(Ordering::Relaxed) {
                        max_depth.fetch_max(depth as u64, Ordering::Relaxed);
                    }
                    if expansions % 256 == 0 {
                        let el = t0.elapsed().as_secs_f64();
                        if el > cfg.budget_s {
                            *cap_hit.lock() = Some(format!("time budget {:.0}s", cfg.budget_s));
                            stop.store(true, Ordering::Relaxed);
                        }
                        if states.load(Ordering::Relaxed) > cfg.max_states {
                            *cap_hit.lock() = Some(format!("state cap {}", cfg.max_states));
                            stop.store(true, Ordering::Relaxed);
                        }
                        if tid == 0 && expansions % 4096 == 0 && rss_gb() > cfg.rss_cap_gb {
                            *cap_hit.lock() = Some(format!("rss cap {:.0} GB", cfg.rss_cap_gb));
                            stop.store(true, Ordering::Relaxed);
                        }
                    }
                    // determinism self-check: re-execute this path from the initial state
                    if expansions % 1024 == 1 {
                        let p = path_of(&item.path);
                        let mut c2 = Ctx::new();
                        let ok = match start_world(item.world.scen, &mut c2) {
                            Some(mut w) => {
                                let mut alive = true;
                                for a in &p {
                                    if !w.apply(a, &mut c2) {
                                        alive = false;
                                        break;
                                    }
                                }
                                alive && w.key() == item.key
                            }
                            None => false,
                        };
                        if !ok {
                            *mach_err.lock() = Some(format!(
                                "nondeterminism: replay of a {}-step path did not reproduce its state",
                                p.len()
                            ));
                            stop.store(true, Ordering::Relaxed);
                        } else {
                            validated.fetch_add(1, Ordering::Relaxed);
                            let mut s = samples.lock();
                            if s.len() < 3 && p.len() >= 4 {
                                s.push(p);
                            }
                        }
                    }
                    if depth >= cfg.depth_cap {
                        *cap_hit.lock() = Some(format!("depth cap {}", cfg.depth_cap));
                        pending.fetch_sub(1, Ordering::AcqRel);
                        continue;
                    }
                    // per-state checks on clones
                    if item.world.scen.clone_checks {
                        for i in 0..item.world.n() {
                            item.world.check_has_ready_clone(i, &mut ctx);
                            item.world.check_bad_messages(i, &mut ctx);
                        }
                    }
                    if item.world.scen.api_probe {
                        for i in 0..item.world.n() {
                            item.world.check_api_probe(i, &mut ctx);
                        }
                    }
                    if let Some(h) = cfg.state_hook {
                        h(&item.world, &mut ctx);
                    }
                    if !ctx.viol.is_empty() {
                        let p = path_of(&item.path);
                        record(found, &mut ctx, &p, &cfg, stop);
                    }
                    item.world.enabled(&mut acts);
                    // shuffle a little so that different seeds walk in different orders
                    if cfg.seed != 0 && acts.len() > 1 {
                        rng ^= rng << 13;
                        rng ^= rng >> 7;
                        rng ^= rng << 17;
                        let k = (rng as usize) % acts.len();
                        acts.rotate_left(k);
                    }
                    let n = acts.len();
                    for (ai, a) in acts.iter().enumerate() {
                        let mut w = if ai + 1 == n {
                            // last child may reuse the parent world
                            item.world.clone()
                        } else {
                            item.world.clone()
                        };
                        let alive = w.apply(a, &mut ctx);
                        transitions.fetch_add(1, Ordering::Relaxed);
                        if !ctx.viol.is_empty() {
                            let mut p = path_of(&item.path);
                            p.push(*a);
                            record(found, &mut ctx, &p, &cfg, stop);
                        }
                        if !alive {
                            dead.fetch_add(1, Ordering::Relaxed);
                            continue;
                        }
                        let k = w.key();
                        if visited.insert(k) {
                            states.fetch_add(1, Ordering::Relaxed);
                            pending.fetch_add(1, Ordering::AcqRel);
                            local.push(Item {
                                world: w,
                                path: Some(Arc::new(PathNode {
                                    action: *a,
                                    parent: item.path.clone(),
                                    depth: depth + 1,
                                })),
                                key: k,
                            });
                        }
                    }
                    pending.fetch_sub(1, Ordering::AcqRel);
                    // share work
                    if local.len() > 8 {
                        let mut g = global.lock();
                        if g.len() < threads * 4 {
                            let give = local.len() / 2;
                            // give away the oldest (shallowest) items
                            let rest = local.split_off(give);
                            g.extend(local.drain(..));
                            local = rest;
                        }
                    }
                }
                let mut st = stats_total.lock();
                for (k, s) in ctx.stats.iter().enumerate() {
                    st[k] += s;
                }
            });
        }
    });

    res.states = states.load(Ordering::Relaxed);
    res.transitions = transitions.load(Ordering::Relaxed) + scen.prefix.len() as u64;
    res.max_depth = max_depth.load(Ordering::Relaxed) as u32;
    res.dead_branches = dead.load(Ordering::Relaxed);
    res.validated = validated.load(Ordering::Relaxed);
    res.cap_hit = cap_hit.lock().clone();
    res.machinery_error = mach_err.lock().clone();
    let stopped_by_violation = stop.load(Ordering::Relaxed) && res.cap_hit.is_none() && res.machinery_error.is_none();
    res.exhaustive = res.cap_hit.is_none() && res.machinery_error.is_none() && !stopped_by_violation;
    let st = stats_total.lock();
    for k in 0..NSTAT {
        res.stats[k] += st[k];
    }
    res.found = found.lock().values().cloned().collect();
    res.found.sort_by(|a, b| (a.v.prop, &a.v.kind).cmp(&(b.v.prop, &b.v.kind)));
    res.samples = samples.lock().clone();
    res.wall_s = t0.elapsed().as_secs_f64();
    res
}

fn record(
    found: &Mutex<HashMap<(String, String), Found>>,
    ctx: &mut Ctx,
    path: &[Action],
    cfg: &RunCfg,
    stop: &AtomicBool,
) {
    let mut f = found.lock();
    for v in ctx.viol.drain(..) {
        let key = (v.prop.to_string(), v.kind.clone());
        let is_target = cfg.targets.contains(&v.prop);
        let known = crate::known::is_known(&v);
        match f.get_mut(&key) {
            Some(e) => {
                e.count += 1;
                if path.len() < e.path.len() {
                    e.path = path.to_vec();
                    e.v = v;
                }
            }
            None => {
                f.insert(
                    key,
                    Found {
                        v,
                        path: path.to_vec(),
                        count: 1,
                    },
                );
            }
        }
        if is_target && !known {
            stop.store(true, Ordering::Relaxed);
        }
    }
}

/// Re-executes a path step by step; returns the violations with the step index at which
/// they appeared, whether every action was enabled when taken, and the final world.
pub struct Replay {
    pub viol: Vec<(usize, Violation)>,
    pub all_enabled: bool,
    pub died_at: Option<usize>,
    pub keys: Vec<u128>,
    pub trace: Vec<String>,
    pub final_desc: String,
}

pub fn replay(scen: &'static Scenario, path: &[Action], verbose: bool, hook: Option<fn(&World, &mut Ctx)>) -> Replay {
    let mut ctx = Ctx::new();
    if verbose {
        ctx.trace = Some(vec![]);
    }
    let mut r = Replay {
        viol: vec![],
        all_enabled: true,
        died_at: None,
        keys: vec![],
        trace: vec![],
        final_desc: String::new(),
    };
    let Some(mut w) = start_world(scen, &mut ctx) else {
        for v in ctx.viol.drain(..) {
            r.viol.push((0, v));
        }
        r.died_at = Some(0);
        return r;
    };
    if let Some(t) = ctx.trace.as_mut() {
        r.trace.push("prefix:".to_string());
        r.trace.append(t);
    }
    for v in ctx.viol.drain(..) {
        if verbose {
            r.trace.push(format!("  !! (prefix) {} {}: {}", v.prop, v.kind, v.detail));
        }
        r.viol.push((0, v));
    }
    let mut acts = vec![];
    if verbose {
        r.trace.push(format!("start:\n{}", w.describe()));
    }
    for (k, a) in path.iter().enumerate() {
        w.enabled(&mut acts);
        if !acts.contains(a) {
            r.all_enabled = false;
            if verbose {
                r.trace.push(format!("step {}: {:?} NOT ENABLED (enabled: {:?})", k + 1, a, acts));
            }
            break;
        }
        let alive = w.apply(a, &mut ctx);
        if let Some(t) = ctx.trace.as_mut() {
            r.trace.push(format!("step {}: {:?}", k + 1, a));
            r.trace.append(t);
        }
        for v in ctx.viol.drain(..) {
            if verbose {
                r.trace.push(format!("  !! {} {}: {}", v.prop, v.kind, v.detail));
            }
            r.viol.push((k + 1, v));
        }
        if !alive {
            r.died_at = Some(k + 1);
            break;
        }
        if scen.clone_checks {
            for i in 0..w.n() {
                w.check_has_ready_clone(i, &mut ctx);
                w.check_bad_messages(i, &mut ctx);
            }
            for v in ctx.viol.drain(..) {
                r.viol.push((k + 1, v));
            }
        }
        r.keys.push(w.key());
        if verbose {
            r.trace.push(w.describe());
        }
    }
    if let (Some(h), None, true) = (hook, r.died_at, r.all_enabled) {
        h(&w, &mut ctx);
        for v in ctx.viol.drain(..) {
            if verbose {
                r.trace.push(format!("  !! {} {}: {}", v.prop, v.kind, v.detail));
            }
            r.viol.push((path.len(), v));
        }
    }
    r.final_desc = w.describe();
    r
}

/// Greedy shrinking: drop actions while the same (prop, kind) still occurs.
pub fn shrink(scen: &'static Scenario, path: &[Action], prop: &str, kind: &str, hook: Option<fn(&World, &mut Ctx)>) -> Vec<Action> {
    let hits = |p: &[Action]| -> Option<usize> {
        let r = replay(scen, p, false, hook);
        if !r.all_enabled {
            return None;
        }
        r.viol
            .iter()
            .find(|(_, v)| v.prop == prop && v.kind == kind)
            .map(|(k, _)| *k)
    };
    let mut cur = path.to_vec();
    match hits(&cur) {
        Some(k) => cur.truncate(k),
        None => return cur,
    }
    let t0 = std::time::Instant::now();
    let mut changed = true;
    while changed && t0.elapsed().as_secs_f64() < 20.0 {
        changed = false;
        let mut i = cur.len();
        while i > 0 {
            i -= 1;
            let mut cand = cur.clone();
            cand.remove(i);
            if let Some(k) = hits(&cand) {
                cand.truncate(k);
                cur = cand;
                changed = true;
                if i > cur.len() {
                    i = cur.len();
                }
            }
        }
    }
    cur
}
