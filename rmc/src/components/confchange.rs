//! C12 component engine: configuration-change algebra.
//!
//! Joint breadth-first search over pairs (real `ProgressTracker` driven through the real
//! `Changer` / `restore`, reference `RefConf`) from the empty tracker and from `restore()` of
//! every valid `ConfState` over the root id universe, under every operation
//!
//!   simple(L) | enter_joint(false, L) | enter_joint(true, L) | leave_joint
//!
//! with L ranging over *all* change lists of length <= maxlen over
//! {AddNode, AddLearner, Remove} x ids {0} ∪ universe, until the fixpoint.
//!
//! Bounds (see `tier_cfg`): quick = universe {1,2,3,4,9}, lists <= 3 from non-joint and <= 2 from
//! joint configurations; thorough = that universe with lists <= 3 everywhere, plus a second pass
//! over {1,2,3,4,5,9} with lists <= 3 from non-joint and <= 2 from joint configurations. Since the
//! roots are *all* valid configurations over the universe, the search closes at depth 0/1; the
//! state of a pair is its configuration, progress map and model configuration.
//!
//! Checked after every call (see `step`) and on every distinct state (see `state_check`):
//!  (a) Ok/Err agreement with the reference model,
//!  (b) on Ok: resulting config == model's, invariants, progress keys == members,
//!  (c) `simple` alters the incoming voter set by at most one member,
//!  (d) on Err the tracker is bit-identical,
//!  (e) restore(to_conf_state(cfg)) on a fresh tracker reproduces cfg and the progress ids,
//!  (f) every deciding quorum of the old config intersects every deciding quorum of the new one
//!      (all pairs of subsets of the id universe, real `has_quorum`, cross-checked against the
//!      definition); not demanded when the old config is the empty bootstrap config, whose only
//!      documented use is "adding nodes to an empty config for convenience" and in which the
//!      empty set is a quorum by convention.
//! Plus a stateless enumeration of `ConfChangeV2::{enter_joint, leave_joint}`.
//!
//! The model (`crate::refconf::RefConf`) is not edited here; helpers live in this file.

use crate::check::CompResult;
use crate::refconf::{Ch, RefConf};
use crate::util::{guarded, W};
use raft::eraftpb::{
    ConfChangeSingle, ConfChangeTransition, ConfChangeType, ConfChangeV2, ConfState,
};
use raft::{Changer, ProgressTracker};
use serde_json::{json, Value};
use std::collections::{BTreeMap, BTreeSet, HashMap};
use std::sync::atomic::{AtomicBool, AtomicUsize, Ordering};
use std::sync::Mutex;
use std::time::Instant;

const ENGINE: &str = "confchange";
const NEXT_IDX: u64 = 5;
const MAX_INFLIGHT: usize = 2;
const MAX_KINDS: usize = 5;

/// The id universe of a run: `ids` are the ids that can ever become members (the non-zero ids
/// of the change alphabet: ordinary ids plus the "unknown" id 9), changes additionally use id 0
/// (which the algebra must ignore). Subsets of `ids` are numbered by bit mask.
#[derive(Clone)]
struct Univ {
    ids: Vec<u64>,
    nsub: u64,
    /// disj[s] = bit set of all subsets t with s ∩ t = ∅
    disj: Vec<u64>,
}

impl Univ {
    fn new(ids: &[u64]) -> Univ {
        assert!(ids.len() <= 6 && !ids.contains(&0));
        let nsub = 1u64 << ids.len();
        let disj = (0..nsub)
            .map(|s| (0..nsub).filter(|t| s & t == 0).fold(0u64, |a, t| a | 1 << t))
            .collect();
        Univ { ids: ids.to_vec(), nsub, disj }
    }
    fn change_ids(&self) -> Vec<u64> {
        let mut v = vec![0];
        v.extend(self.ids.iter());
        v
    }
    fn subset(&self, mask: u64) -> BTreeSet<u64> {
        self.ids
            .iter()
            .enumerate()
            .filter(|(i, _)| mask >> i & 1 == 1)
            .map(|(_, id)| *id)
            .collect()
    }
}

// ------------------------------------------------------------------------------------------
// small helpers

fn ch_to_single(c: &Ch) -> ConfChangeSingle {
    let (ty, id) = match *c {
        Ch::AddNode(i) => (ConfChangeType::AddNode, i),
        Ch::AddLearner(i) => (ConfChangeType::AddLearnerNode, i),
        Ch::Remove(i) => (ConfChangeType::RemoveNode, i),
    };
    let mut s = ConfChangeSingle::default();
    s.node_id = id;
    s.set_change_type(ty);
    s
}

fn ch_str(c: &Ch) -> String {
    match *c {
        Ch::AddNode(i) => format!("v{}", i),
        Ch::AddLearner(i) => format!("l{}", i),
        Ch::Remove(i) => format!("r{}", i),
    }
}

fn parse_ch(s: &str) -> Option<Ch> {
    let id: u64 = s.get(1..)?.parse().ok()?;
    match s.as_bytes().first()? {
        b'v' => Some(Ch::AddNode(id)),
        b'l' => Some(Ch::AddLearner(id)),
        b'r' => Some(Ch::Remove(id)),
        _ => None,
    }
}

fn conf_str(c: &RefConf) -> String {
    let f = |s: &BTreeSet<u64>| s.iter().map(|x| x.to_string()).collect::<Vec<_>>().join(" ");
    let mut o = format!("voters=({})", f(&c.voters));
    if !c.outgoing.is_empty() {
        o += &format!("&&({})", f(&c.outgoing));
    }
    if !c.learners.is_empty() {
        o += &format!(" learners=({})", f(&c.learners));
    }
    if !c.learners_next.is_empty() {
        o += &format!(" learners_next=({})", f(&c.learners_next));
    }
    if c.auto_leave {
        o += " autoleave";
    }
    o
}

fn conf_json(c: &RefConf) -> Value {
    json!({
        "voters": c.voters.iter().collect::<Vec<_>>(),
        "voters_outgoing": c.outgoing.iter().collect::<Vec<_>>(),
        "learners": c.learners.iter().collect::<Vec<_>>(),
        "learners_next": c.learners_next.iter().collect::<Vec<_>>(),
        "auto_leave": c.auto_leave,
    })
}

fn conf_from_json(j: &Value) -> Option<RefConf> {
    let set = |k: &str| -> Option<BTreeSet<u64>> {
        j.get(k)?.as_array()?.iter().map(|v| v.as_u64()).collect()
    };
    Some(RefConf {
        voters: set("voters")?,
        outgoing: set("voters_outgoing")?,
        learners: set("learners")?,
        learners_next: set("learners_next")?,
        auto_leave: j.get("auto_leave")?.as_bool()?,
    })
}

/// The configuration the real tracker reports, read through `to_conf_state` (the only public
/// way to see both halves), as plain sets.
fn impl_conf(t: &ProgressTracker) -> RefConf {
    RefConf::from_cs(&t.conf().to_conf_state())
}

fn prog_ids(t: &ProgressTracker) -> BTreeSet<u64> {
    t.iter().map(|(id, _)| *id).collect()
}

/// Bit-identity of two trackers as far as the public API can see: configuration, progress ids,
/// every `Progress` (PartialEq over all fields incl. inflights), votes, group-commit flag.
fn tracker_diff(a: &ProgressTracker, b: &ProgressTracker) -> Option<String> {
    // fast path without allocation
    if a.conf() == b.conf()
        && a.iter().len() == b.iter().len()
        && a.iter().all(|(id, p)| b.get(*id) == Some(p))
        && a.votes() == b.votes()
        && a.group_commit() == b.group_commit()
    {
        return None;
    }
    if a.conf() != b.conf() {
        return Some(format!("conf {} vs {}", conf_str(&impl_conf(a)), conf_str(&impl_conf(b))));
    }
    let (ia, ib) = (prog_ids(a), prog_ids(b));
    if ia != ib {
        return Some(format!("progress ids {:?} vs {:?}", ia, ib));
    }
    for id in &ia {
        if a.get(*id) != b.get(*id) {
            return Some(format!("progress of {} differs: {:?} vs {:?}", id, a.get(*id), b.get(*id)));
        }
    }
    if a.votes() != b.votes() {
        return Some("votes differ".into());
    }
    if a.group_commit() != b.group_commit() {
        return Some("group_commit differs".into());
    }
    None
}

/// Canonical key of a pair (implementation, model).
fn pair_key(t: &ProgressTracker, m: &RefConf) -> u128 {
    let mut w = W::default();
    w.cs(&t.conf().to_conf_state());
    let ids = prog_ids(t);
    w.us(ids.len());
    for id in &ids {
        let p = t.get(*id).unwrap();
        w.u64(*id);
        w.u64(p.matched);
        w.u64(p.next_idx);
        w.u8(p.state as u8);
        w.b(p.paused);
        w.u64(p.pending_snapshot);
        w.u64(p.pending_request_snapshot);
        w.b(p.recent_active);
        w.us(p.ins.count());
        w.u64(p.commit_group_id);
        w.u64(p.committed_index);
    }
    w.us(t.votes().len());
    w.b(t.group_commit());
    w.u8(0xee);
    w.cs(&m.to_cs());
    w.key()
}

/// The real `has_quorum` evaluated on all subsets of the id universe (bit s of the result is
/// set iff subset number s is a deciding quorum). The set type is crate-private in raft-rs, it
/// is inferred from the call.
fn real_qmask(u: &Univ, t: &ProgressTracker) -> Result<u64, (String, String)> {
    guarded(|| {
        let mut m = 0u64;
        for s in 0..u.nsub {
            let mut set = std::collections::HashSet::default();
            for (i, id) in u.ids.iter().enumerate() {
                if s >> i & 1 == 1 {
                    set.insert(*id);
                }
            }
            if t.has_quorum(&set) {
                m |= 1 << s;
            }
        }
        m
    })
}

fn model_qmask(u: &Univ, c: &RefConf) -> u64 {
    let mut m = 0u64;
    for s in 0..u.nsub {
        if c.is_quorum(&u.subset(s)) {
            m |= 1 << s;
        }
    }
    m
}

/// The C12 invariants, written out independently of `RefConf::invariants` (both are evaluated).
fn invariant_kind(c: &RefConf, pids: &BTreeSet<u64>) -> Option<(&'static str, String)> {
    for l in &c.learners {
        if c.voters.contains(l) {
            return Some(("invariant-learner-is-incoming-voter", format!("{} in learners and voters", l)));
        }
        if c.outgoing.contains(l) {
            return Some(("invariant-learner-is-outgoing-voter", format!("{} in learners and voters_outgoing", l)));
        }
    }
    for l in &c.learners_next {
        if !c.outgoing.contains(l) {
            return Some(("invariant-staged-learner-not-outgoing", format!("{} in learners_next but not in voters_outgoing", l)));
        }
    }
    if c.voters.is_empty() {
        return Some(("invariant-no-voter", "incoming voter set is empty".into()));
    }
    if c.outgoing.is_empty() {
        if !c.learners_next.is_empty() {
            return Some(("invariant-nonjoint-has-learners-next", format!("learners_next={:?}", c.learners_next)));
        }
        if c.auto_leave {
            return Some(("invariant-nonjoint-has-auto-leave", "auto_leave set".into()));
        }
    }
    let members = c.members();
    if *pids != members {
        return Some(("progress-keys-differ-from-members", format!("progress ids {:?}, members {:?}", pids, members)));
    }
    None
}

#[derive(Clone, Copy, PartialEq, Eq, Debug)]
enum EK {
    SimpleInJoint,
    MoreThanOneVoter,
    RemovedAllVoters,
    AlreadyJoint,
    ZeroVoterJoint,
    NotJoint,
    Other,
}

fn impl_err_kind(e: &raft::Error) -> EK {
    let s = match e {
        raft::Error::ConfChangeError(s) => s.as_str(),
        _ => return EK::Other,
    };
    match s {
        "can't apply simple config change in joint config" => EK::SimpleInJoint,
        "more than one voter changed without entering joint config" => EK::MoreThanOneVoter,
        "removed all voters" => EK::RemovedAllVoters,
        "config is already joint" => EK::AlreadyJoint,
        "can't make a zero-voter config joint" => EK::ZeroVoterJoint,
        "can't leave a non-joint config" => EK::NotJoint,
        _ => EK::Other,
    }
}

fn model_err_kind(s: &str) -> EK {
    match s {
        "simple in joint" => EK::SimpleInJoint,
        "more than one voter changed" => EK::MoreThanOneVoter,
        "removed all voters" => EK::RemovedAllVoters,
        "already joint" => EK::AlreadyJoint,
        "zero-voter config" => EK::ZeroVoterJoint,
        "not joint" => EK::NotJoint,
        _ => EK::Other,
    }
}

// ------------------------------------------------------------------------------------------
// statistics

macro_rules! stat_names {
    ($($n:ident),* $(,)?) => {
        #[allow(non_camel_case_types, dead_code)]
        #[derive(Clone, Copy)]
        enum S { $($n),* }
        const STAT_NAMES: &[&str] = &[$(stringify!($n)),*];
    };
}
stat_names!(
    ok_simple,
    ok_enter_joint,
    ok_leave_joint,
    err_simple_in_joint,
    err_more_than_one_voter,
    err_removed_all_voters,
    err_already_joint,
    err_zero_voter_joint,
    err_not_joint,
    err_other_invariant,
    err_kind_differs_from_model,
    err_atomicity_checked,
    simple_voter_delta_0,
    simple_voter_delta_1,
    quorum_steps_checked,
    quorum_pairs_checked,
    quorum_skipped_old_config_empty,
    has_quorum_evaluations,
    restores_checked,
    states_joint,
    states_learners_next_nonempty,
    states_auto_leave,
    states_with_learners,
    states_empty_config,
    id0_changes_in_ok_lists,
    unknown_id_became_member,
    progress_reset_in_one_list,
    classification_cases,
    classification_enter_joint_some,
    classification_leave_joint_true,
    refconf_apply_v2_mismatch,
    qmask_memo_hits,
    subset_pairs_examined,
);
const NSTAT: usize = 33;

#[derive(Clone)]
struct Stats([u64; NSTAT]);

impl Stats {
    fn new() -> Stats {
        assert_eq!(STAT_NAMES.len(), NSTAT);
        Stats([0; NSTAT])
    }
    #[inline]
    fn add(&mut self, s: S, n: u64) {
        self.0[s as usize] += n;
    }
    fn get(&self, name: &str) -> u64 {
        self.0[STAT_NAMES.iter().position(|x| *x == name).expect("stat name")]
    }
    fn merge(&mut self, o: &Stats) {
        for i in 0..self.0.len() {
            self.0[i] += o.0[i];
        }
    }
}

/// Per-thread context.
struct Cx {
    u: Univ,
    st: Stats,
    /// real has_quorum masks memoised per configuration (has_quorum reads `conf.voters` only)
    qmemo: HashMap<RefConf, u64>,
}

impl Cx {
    fn new(u: &Univ) -> Cx {
        Cx { u: u.clone(), st: Stats::new(), qmemo: HashMap::new() }
    }
    fn qmask(&mut self, t: &ProgressTracker, ic: &RefConf) -> Result<u64, (String, String)> {
        if let Some(m) = self.qmemo.get(ic) {
            self.st.add(S::qmask_memo_hits, 1);
            return Ok(*m);
        }
        let m = real_qmask(&self.u, t)?;
        self.st.add(S::has_quorum_evaluations, self.u.nsub);
        self.qmemo.insert(ic.clone(), m);
        Ok(m)
    }
}

type Viol = (String, String);

// ------------------------------------------------------------------------------------------
// operations

#[derive(Clone, Debug, PartialEq)]
enum Op {
    Simple(Vec<Ch>),
    Enter(bool, Vec<Ch>),
    Leave,
}

impl Op {
    fn to_json(&self) -> Value {
        match self {
            Op::Simple(l) => json!({"op": "simple", "changes": l.iter().map(ch_str).collect::<Vec<_>>()}),
            Op::Enter(a, l) => json!({"op": "enter_joint", "auto_leave": a, "changes": l.iter().map(ch_str).collect::<Vec<_>>()}),
            Op::Leave => json!({"op": "leave_joint"}),
        }
    }
    fn from_json(j: &Value) -> Option<Op> {
        let list = || -> Option<Vec<Ch>> {
            j.get("changes")?.as_array()?.iter().map(|v| v.as_str().and_then(parse_ch)).collect()
        };
        match j.get("op")?.as_str()? {
            "simple" => Some(Op::Simple(list()?)),
            "enter_joint" => Some(Op::Enter(j.get("auto_leave")?.as_bool()?, list()?)),
            "leave_joint" => Some(Op::Leave),
            _ => None,
        }
    }
}

struct OpTable {
    lists: Vec<Vec<Ch>>,
    ccs: Vec<Vec<ConfChangeSingle>>,
    ops: Vec<Op>,
}

impl OpTable {
    fn new(u: &Univ, maxlen: usize) -> OpTable {
        let mut singles = vec![];
        for id in u.change_ids() {
            singles.push(Ch::AddNode(id));
            singles.push(Ch::AddLearner(id));
            singles.push(Ch::Remove(id));
        }
        let mut lists: Vec<Vec<Ch>> = vec![vec![]];
        let mut lo = 0;
        for _ in 0..maxlen {
            let hi = lists.len();
            for i in lo..hi {
                for s in &singles {
                    let mut l = lists[i].clone();
                    l.push(*s);
                    lists.push(l);
                }
            }
            lo = hi;
        }
        let ccs = lists.iter().map(|l| l.iter().map(ch_to_single).collect()).collect();
        let mut ops = vec![Op::Leave];
        for l in &lists {
            ops.push(Op::Simple(l.clone()));
            ops.push(Op::Enter(false, l.clone()));
            ops.push(Op::Enter(true, l.clone()));
        }
        OpTable { lists, ccs, ops }
    }
    /// op 0 = leave_joint; then simple(L), enter_joint(false, L), enter_joint(true, L) per list
    /// number of operations using lists of length <= maxlen (lists are ordered by length)
    fn n_ops(&self, maxlen: usize) -> usize {
        1 + 3 * self.lists.iter().filter(|l| l.len() <= maxlen).count()
    }
    fn op(&self, i: usize) -> &Op {
        &self.ops[i]
    }
    fn ccs(&self, i: usize) -> &[ConfChangeSingle] {
        if i == 0 {
            &[]
        } else {
            &self.ccs[(i - 1) / 3]
        }
    }
}

struct StepOut {
    viols: Vec<Viol>,
    next: Option<(ProgressTracker, RefConf)>,
}

/// Executes one operation on the real code and on the model and evaluates (a)-(d),(f).
/// `snap` is a clone of `tr` taken before the call.
fn step(cx: &mut Cx, tr: &ProgressTracker, snap: &ProgressTracker, old: &RefConf, model: &RefConf, op: &Op, ccs: &[ConfChangeSingle]) -> StepOut {
    let mut viols: Vec<Viol> = vec![];
    let (opname, mr) = match op {
        Op::Simple(l) => ("simple", model.simple(l)),
        Op::Enter(a, l) => ("enter_joint", model.enter_joint(*a, l)),
        Op::Leave => ("leave_joint", model.leave_joint()),
    };
    let r = guarded(|| {
        let mut c = Changer::new(tr);
        match op {
            Op::Simple(_) => c.simple(ccs),
            Op::Enter(a, _) => c.enter_joint(*a, ccs),
            Op::Leave => c.leave_joint(),
        }
    });
    let r = match r {
        Ok(r) => r,
        Err((msg, loc)) => {
            viols.push((format!("panic-in-{}", opname), format!("panic `{}` at {}", msg, loc)));
            return StepOut { viols, next: None };
        }
    };
    match r {
        Err(e) => {
            let ek = impl_err_kind(&e);
            cx.st.add(
                match ek {
                    EK::SimpleInJoint => S::err_simple_in_joint,
                    EK::MoreThanOneVoter => S::err_more_than_one_voter,
                    EK::RemovedAllVoters => S::err_removed_all_voters,
                    EK::AlreadyJoint => S::err_already_joint,
                    EK::ZeroVoterJoint => S::err_zero_voter_joint,
                    EK::NotJoint => S::err_not_joint,
                    EK::Other => S::err_other_invariant,
                },
                1,
            );
            // (d) a rejected change leaves everything untouched
            cx.st.add(S::err_atomicity_checked, 1);
            if let Some(d) = tracker_diff(tr, snap) {
                viols.push((format!("rejected-{}-modified-tracker", opname), format!("{} returned Err({}) but the tracker changed: {}", opname, e, d)));
            }
            match &mr {
                Ok(m2) => {
                    // (a) the model accepts: raft-rs rejects a change the algebra allows
                    let why = if ek == EK::Other { "an internal invariant check" } else { "a documented rejection rule that does not apply here" };
                    viols.push((
                        format!("{}-rejected-but-model-accepts", opname),
                        format!(
                            "{} on {} returned Err(\"{}\") ({}), the reference algebra accepts it and yields {}",
                            opname, conf_str(old), e, why, conf_str(m2)
                        ),
                    ));
                }
                Err(me) => {
                    if model_err_kind(me) != ek {
                        cx.st.add(S::err_kind_differs_from_model, 1);
                    }
                }
            }
            StepOut { viols, next: None }
        }
        Ok((cfg, changes)) => {
            cx.st.add(
                match op {
                    Op::Simple(_) => S::ok_simple,
                    Op::Enter(..) => S::ok_enter_joint,
                    Op::Leave => S::ok_leave_joint,
                },
                1,
            );
            let mut new = tr.clone();
            if let Err((msg, loc)) = guarded(|| new.apply_conf(cfg, changes, NEXT_IDX)) {
                viols.push(("panic-in-apply_conf".into(), format!("panic `{}` at {}", msg, loc)));
                return StepOut { viols, next: None };
            }
            let ic = impl_conf(&new);
            let pids = prog_ids(&new);
            // (a)/(b) agreement with the model
            match &mr {
                Err(me) => viols.push((
                    format!("{}-accepted-but-model-rejects", opname),
                    format!("{} on {} returned Ok({}), the reference algebra rejects it: {}", opname, conf_str(old), conf_str(&ic), me),
                )),
                Ok(m2) => {
                    if ic != *m2 {
                        viols.push((
                            format!("{}-config-differs-from-model", opname),
                            format!("{} on {}: raft-rs yields {}, the reference algebra {}", opname, conf_str(old), conf_str(&ic), conf_str(m2)),
                        ));
                    }
                }
            }
            // (b) invariants + progress keys
            if let Some((k, d)) = invariant_kind(&ic, &pids) {
                viols.push((k.to_string(), format!("after {} on {}: {} (config {})", opname, conf_str(old), d, conf_str(&ic))));
            } else if let Err(d) = ic.invariants() {
                viols.push(("invariant-refconf".into(), format!("after {} on {}: {} (config {})", opname, conf_str(old), d, conf_str(&ic))));
            }
            // (c) simple alters the incoming voters by at most one member
            if let Op::Simple(_) = op {
                let delta = ic.voters.symmetric_difference(&old.voters).count();
                match delta {
                    0 => cx.st.add(S::simple_voter_delta_0, 1),
                    1 => cx.st.add(S::simple_voter_delta_1, 1),
                    _ => viols.push((
                        "simple-changed-more-than-one-voter".into(),
                        format!("simple on {} produced {}: {} voters differ", conf_str(old), conf_str(&ic), delta),
                    )),
                }
            }
            // (f) quorum intersection old/new
            if old.voters.is_empty() && old.outgoing.is_empty() {
                cx.st.add(S::quorum_skipped_old_config_empty, 1);
            } else {
                match (cx.qmask(snap, old), cx.qmask(&new, &ic)) {
                    (Ok(qo), Ok(qn)) => {
                        cx.st.add(S::quorum_steps_checked, 1);
                        cx.st.add(S::quorum_pairs_checked, (qo.count_ones() as u64) * (qn.count_ones() as u64));
                        cx.st.add(S::subset_pairs_examined, cx.u.nsub * cx.u.nsub);
                        // all pairs (s, t): s quorum of old, t quorum of new => s ∩ t != ∅
                        for s in 0..cx.u.nsub {
                            if qo >> s & 1 == 0 || qn & cx.u.disj[s as usize] == 0 {
                                continue;
                            }
                            let t = (qn & cx.u.disj[s as usize]).trailing_zeros() as u64;
                            viols.push((
                                format!("quorum-non-intersection-after-{}", opname),
                                format!(
                                    "{:?} is a deciding quorum of {} and {:?} is a deciding quorum of {} (per has_quorum), they are disjoint",
                                    cx.u.subset(s), conf_str(old), cx.u.subset(t), conf_str(&ic)
                                ),
                            ));
                            break;
                        }
                    }
                    (Err((m, l)), _) | (_, Err((m, l))) => {
                        viols.push(("panic-in-has_quorum".into(), format!("panic `{}` at {}", m, l)));
                    }
                }
            }
            // (e) restore(to_conf_state(cfg)) on a fresh tracker reproduces cfg and the progress ids
            // (checked for every successful call: the id order inside the ConfState is the hash
            // order of this particular tracker)
            if viols.is_empty() {
                let cs = new.conf().to_conf_state();
                viols.extend(restore_check(cx, &cs, &new, "restore-roundtrip"));
            }
            // non-vacuity of the alphabet
            if let Op::Simple(l) | Op::Enter(_, l) = op {
                if l.iter().any(|c| matches!(c, Ch::AddNode(0) | Ch::AddLearner(0) | Ch::Remove(0))) {
                    cx.st.add(S::id0_changes_in_ok_lists, 1);
                }
                if pids.contains(&9) && !prog_ids(snap).contains(&9) {
                    cx.st.add(S::unknown_id_became_member, 1);
                }
                for (i, c) in l.iter().enumerate() {
                    if let Ch::Remove(x) = c {
                        if *x != 0 && l[i + 1..].iter().any(|d| matches!(d, Ch::AddNode(y) | Ch::AddLearner(y) if y == x)) {
                            cx.st.add(S::progress_reset_in_one_list, 1);
                            break;
                        }
                    }
                }
            }
            if viols.is_empty() {
                let m2 = mr.unwrap();
                StepOut { viols, next: Some((new, m2)) }
            } else {
                StepOut { viols, next: None }
            }
        }
    }
}

/// Per-state checks: observers against the model, has_quorum against the definition,
/// (e) restore round-trip.
fn state_check(cx: &mut Cx, tr: &ProgressTracker, model: &RefConf) -> Vec<Viol> {
    let mut viols = vec![];
    let ic = impl_conf(tr);
    let pids = prog_ids(tr);
    let empty = ic == RefConf::default();
    if ic != *model {
        viols.push(("state-config-differs-from-model".into(), format!("raft-rs {}, model {}", conf_str(&ic), conf_str(model))));
    }
    if !empty {
        if let Some((k, d)) = invariant_kind(&ic, &pids) {
            viols.push((k.to_string(), format!("{} (config {})", d, conf_str(&ic))));
        } else if let Err(d) = ic.invariants() {
            viols.push(("invariant-refconf".into(), format!("{} (config {})", d, conf_str(&ic))));
        }
    } else if !pids.is_empty() {
        viols.push(("progress-keys-differ-from-members".into(), format!("empty config tracks {:?}", pids)));
    }
    // getters agree with to_conf_state
    let c = tr.conf();
    let l: BTreeSet<u64> = c.learners().iter().cloned().collect();
    let ln: BTreeSet<u64> = c.learners_next().iter().cloned().collect();
    let mut bad_getter = l != ic.learners || ln != ic.learners_next || *c.auto_leave() != ic.auto_leave;
    for id in cx.u.change_ids() {
        if c.voters().contains(id) != ic.is_voter(id) {
            bad_getter = true;
        }
    }
    if bad_getter {
        viols.push(("conf-getters-disagree-with-conf-state".into(), format!("config {}", conf_str(&ic))));
    }
    // has_quorum against the definition (majority of each non-empty half)
    match cx.qmask(tr, &ic) {
        Ok(q) => {
            let mq = model_qmask(&cx.u, model);
            if q != mq {
                let s = (0..cx.u.nsub).find(|s| (q >> s & 1) != (mq >> s & 1)).unwrap();
                viols.push((
                    "has_quorum-differs-from-definition".into(),
                    format!("has_quorum({:?}) = {} on {}, definition says {}", cx.u.subset(s), q >> s & 1 == 1, conf_str(&ic), mq >> s & 1 == 1),
                ));
            }
        }
        Err((m, l)) => viols.push(("panic-in-has_quorum".into(), format!("panic `{}` at {}", m, l))),
    }
    // statistics
    if !ic.outgoing.is_empty() {
        cx.st.add(S::states_joint, 1);
    }
    if !ic.learners_next.is_empty() {
        cx.st.add(S::states_learners_next_nonempty, 1);
    }
    if ic.auto_leave {
        cx.st.add(S::states_auto_leave, 1);
    }
    if !ic.learners.is_empty() {
        cx.st.add(S::states_with_learners, 1);
    }
    if empty {
        cx.st.add(S::states_empty_config, 1);
    }
    // (e) restore(to_conf_state(cfg)) on a fresh tracker reproduces cfg and the progress ids
    let cs = tr.conf().to_conf_state();
    viols.extend(restore_check(cx, &cs, tr, "restore-roundtrip"));
    viols
}

/// restore(cs) on a fresh tracker must succeed and yield exactly `want`'s configuration and
/// progress ids.
fn restore_check(cx: &mut Cx, cs: &ConfState, want: &ProgressTracker, prefix: &str) -> Vec<Viol> {
    let mut viols = vec![];
    cx.st.add(S::restores_checked, 1);
    let mut fresh = ProgressTracker::new(MAX_INFLIGHT);
    match guarded(|| raft::verif::restore(&mut fresh, NEXT_IDX, cs)) {
        Err((m, l)) => viols.push(("panic-in-restore".into(), format!("panic `{}` at {}", m, l))),
        Ok(Err(e)) => viols.push((
            format!("{}-rejected", prefix),
            format!("restore of {} failed: {}", conf_str(&RefConf::from_cs(cs)), e),
        )),
        Ok(Ok(())) => {
            if fresh.conf() != want.conf() || impl_conf(&fresh) != impl_conf(want) {
                viols.push((
                    format!("{}-config-differs", prefix),
                    format!("restore of {} produced {}", conf_str(&RefConf::from_cs(cs)), conf_str(&impl_conf(&fresh))),
                ));
            }
            if prog_ids(&fresh) != prog_ids(want) {
                viols.push((
                    format!("{}-progress-ids-differ", prefix),
                    format!("restore of {} tracks {:?}, expected {:?}", conf_str(&RefConf::from_cs(cs)), prog_ids(&fresh), prog_ids(want)),
                ));
            }
        }
    }
    viols
}

/// Builds a root pair: `None` = the empty tracker, `Some(c)` = restore(ConfState of c) on a fresh
/// tracker (ids listed in the order `perm` induces). The model is `c` itself.
fn build_root(cx: &mut Cx, root: &Option<RefConf>, rot: usize) -> Result<(ProgressTracker, RefConf), Vec<Viol>> {
    let mut t = ProgressTracker::new(MAX_INFLIGHT);
    let Some(c) = root else {
        return Ok((t, RefConf::default()));
    };
    let mut cs = c.to_cs();
    // seed: rotate the order in which ids are listed (set semantics must not depend on it)
    let rotv = |v: &mut Vec<u64>| {
        if !v.is_empty() {
            let k = rot % v.len();
            v.rotate_left(k);
        }
    };
    rotv(cs.mut_voters());
    rotv(cs.mut_voters_outgoing());
    rotv(cs.mut_learners());
    rotv(cs.mut_learners_next());
    cx.st.add(S::restores_checked, 1);
    match guarded(|| raft::verif::restore(&mut t, NEXT_IDX, &cs)) {
        Err((m, l)) => return Err(vec![("panic-in-restore".into(), format!("panic `{}` at {}", m, l))]),
        Ok(Err(e)) => {
            return Err(vec![(
                "restore-of-valid-confstate-rejected".into(),
                format!("restore of {} failed: {}", conf_str(c), e),
            )])
        }
        Ok(Ok(())) => {}
    }
    let ic = impl_conf(&t);
    if ic != *c {
        return Err(vec![(
            "restore-of-valid-confstate-config-differs".into(),
            format!("restore of {} produced {}", conf_str(c), conf_str(&ic)),
        )]);
    }
    Ok((t, c.clone()))
}

/// All valid configurations over `ids`: every id is absent / incoming voter only / outgoing voter
/// only / voter in both halves / learner / outgoing voter staged as learner; at least one
/// incoming voter; non-joint configs have no staged learners and no auto_leave.
fn valid_configs(ids: &[u64]) -> Vec<RefConf> {
    let mut out = vec![];
    let n = ids.len();
    let total = 6usize.pow(n as u32);
    for code in 0..total {
        let mut c = RefConf::default();
        let mut x = code;
        for id in ids {
            match x % 6 {
                0 => {}
                1 => {
                    c.voters.insert(*id);
                }
                2 => {
                    c.outgoing.insert(*id);
                }
                3 => {
                    c.voters.insert(*id);
                    c.outgoing.insert(*id);
                }
                4 => {
                    c.learners.insert(*id);
                }
                _ => {
                    c.outgoing.insert(*id);
                    c.learners_next.insert(*id);
                }
            }
            x /= 6;
        }
        if c.voters.is_empty() {
            continue;
        }
        if c.outgoing.is_empty() {
            out.push(c);
        } else {
            let mut d = c.clone();
            d.auto_leave = true;
            out.push(c);
            out.push(d);
        }
    }
    out.sort();
    out.dedup();
    out
}

// ------------------------------------------------------------------------------------------
// ConfChangeV2 classification (stateless)

fn tr_name(t: ConfChangeTransition) -> &'static str {
    match t {
        ConfChangeTransition::Auto => "Auto",
        ConfChangeTransition::Implicit => "Implicit",
        ConfChangeTransition::Explicit => "Explicit",
    }
}

fn tr_from(s: &str) -> Option<ConfChangeTransition> {
    match s {
        "Auto" => Some(ConfChangeTransition::Auto),
        "Implicit" => Some(ConfChangeTransition::Implicit),
        "Explicit" => Some(ConfChangeTransition::Explicit),
        _ => None,
    }
}

/// The documented rule (proto/src/confchange.rs, doc comments): joint consensus is used iff the
/// change contains more than one change or joint consensus was requested explicitly (transition
/// != Auto); the joint state is left automatically unless the transition is Explicit. A change
/// leaves the joint state iff it is zero apart from the context.
fn classify_expected(t: ConfChangeTransition, n: usize) -> (Option<bool>, bool) {
    let enter = match t {
        ConfChangeTransition::Explicit => Some(false),
        ConfChangeTransition::Implicit => Some(true),
        ConfChangeTransition::Auto => {
            if n > 1 {
                Some(true)
            } else {
                None
            }
        }
    };
    (enter, t == ConfChangeTransition::Auto && n == 0)
}

fn classify_one(st: &mut Stats, t: ConfChangeTransition, l: &[Ch], ctx: bool) -> Vec<Viol> {
    let mut viols = vec![];
    let mut cc = ConfChangeV2::default();
    cc.set_transition(t);
    cc.set_changes(l.iter().map(ch_to_single).collect::<Vec<_>>().into());
    if ctx {
        cc.set_context(vec![1u8, 2, 3].into());
    }
    let got = guarded(|| (cc.enter_joint(), cc.leave_joint()));
    let (ge, gl) = match got {
        Ok(x) => x,
        Err((m, loc)) => {
            viols.push(("panic-in-confchangev2-classification".into(), format!("panic `{}` at {}", m, loc)));
            return viols;
        }
    };
    st.add(S::classification_cases, 1);
    if ge.is_some() {
        st.add(S::classification_enter_joint_some, 1);
    }
    if gl {
        st.add(S::classification_leave_joint_true, 1);
    }
    let (ee, el) = classify_expected(t, l.len());
    if ge != ee {
        viols.push((
            "confchangev2-enter_joint-misclassified".into(),
            format!("transition {} with {} change(s): enter_joint() = {:?}, documented rule gives {:?}", tr_name(t), l.len(), ge, ee),
        ));
    }
    if gl != el {
        viols.push((
            "confchangev2-leave_joint-misclassified".into(),
            format!("transition {} with {} change(s): leave_joint() = {}, documented rule gives {}", tr_name(t), l.len(), gl, el),
        ));
    }
    if ge.is_some() && gl {
        viols.push((
            "confchangev2-both-enter-and-leave".into(),
            format!("transition {} with {} change(s) classified as both entering and leaving", tr_name(t), l.len()),
        ));
    }
    // self-check of the model's dispatcher (used by the C09 monitor): not a raft-rs verdict
    for base in [
        RefConf { voters: [1, 2, 3].into(), ..Default::default() },
        RefConf { voters: [1, 2].into(), outgoing: [1, 2, 3].into(), learners_next: [3].into(), auto_leave: true, ..Default::default() },
    ] {
        let want = if el {
            base.leave_joint()
        } else if let Some(a) = ee {
            base.enter_joint(a, l)
        } else {
            base.simple(l)
        };
        if base.apply_v2(&cc) != want {
            st.add(S::refconf_apply_v2_mismatch, 1);
        }
    }
    viols
}

fn classify_ops(t: ConfChangeTransition, l: &[Ch], ctx: bool) -> Value {
    json!({"classify": {"transition": tr_name(t), "changes": l.iter().map(ch_str).collect::<Vec<_>>(), "context": ctx}})
}

// ------------------------------------------------------------------------------------------
// exploration

struct Node {
    tr: ProgressTracker,
    model: RefConf,
    /// u32::MAX for a root (then `op` is the root index)
    parent: u32,
    op: u32,
    depth: u32,
    key: u128,
}

struct Found {
    depth: u32,
    parent: u32,
    op: u32,
    detail: String,
    ops: Value,
}

/// One exploration pass: a universe of non-zero ids (root configurations = every valid
/// configuration over it plus the empty one; change ids = the universe plus 0) and the maximal
/// change-list length tried from non-joint / from joint configurations.
#[derive(Clone)]
struct Pass {
    univ: Vec<u64>,
    maxlen_nonjoint: usize,
    maxlen_joint: usize,
}

struct Tier {
    passes: Vec<Pass>,
    classify_len: usize,
    state_cap: usize,
}

fn tier_cfg(tier: &str) -> Tier {
    if tier == "thorough" {
        Tier {
            passes: vec![
                Pass { univ: vec![1, 2, 3, 4, 9], maxlen_nonjoint: 3, maxlen_joint: 3 },
                Pass { univ: vec![1, 2, 3, 4, 5, 9], maxlen_nonjoint: 3, maxlen_joint: 2 },
            ],
            classify_len: 3,
            state_cap: 4_000_000,
        }
    } else {
        Tier {
            passes: vec![Pass { univ: vec![1, 2, 3, 4, 9], maxlen_nonjoint: 3, maxlen_joint: 2 }],
            classify_len: 2,
            state_cap: 4_000_000,
        }
    }
}

fn xorshift(x: &mut u64) -> u64 {
    *x ^= *x << 13;
    *x ^= *x >> 7;
    *x ^= *x << 17;
    *x
}

fn shuffle<T>(v: &mut [T], seed: u64) {
    if seed == 0 {
        return;
    }
    let mut x = seed.wrapping_mul(0x9e3779b97f4a7c15) | 1;
    for i in (1..v.len()).rev() {
        let j = (xorshift(&mut x) % (i as u64 + 1)) as usize;
        v.swap(i, j);
    }
}

fn path_json(u: &Univ, nodes: &[Node], roots: &[Option<RefConf>], table: &OpTable, mut at: u32, last: Option<u32>, rot: usize) -> Value {
    let mut steps = vec![];
    if let Some(op) = last {
        steps.push(table.op(op as usize).to_json());
    }
    loop {
        let n = &nodes[at as usize];
        if n.parent == u32::MAX {
            steps.reverse();
            let root = match &roots[n.op as usize] {
                None => Value::Null,
                Some(c) => conf_json(c),
            };
            return json!({"universe": u.ids, "root": root, "rot": rot, "steps": steps});
        }
        steps.push(table.op(n.op as usize).to_json());
        at = n.parent;
    }
}

fn record(found: &Mutex<BTreeMap<String, Found>>, kind: String, f: Found) {
    let mut g = found.lock().unwrap();
    match g.get(&kind) {
        Some(o) if (o.depth, o.parent, o.op) <= (f.depth, f.parent, f.op) => {}
        _ => {
            g.insert(kind, f);
        }
    }
}

struct PassResult {
    states: u64,
    transitions: u64,
    validated: u64,
    cap_hit: Option<String>,
    samples: Vec<Value>,
    stats: Stats,
    info: Value,
}

#[allow(clippy::too_many_arguments)]
fn run_pass(pass: &Pass, state_cap: usize, seed: u64, t0: Instant, budget_s: f64, threads: usize, found: &Mutex<BTreeMap<String, Found>>) -> PassResult {
    let u = Univ::new(&pass.univ);
    let table = OpTable::new(&u, pass.maxlen_nonjoint.max(pass.maxlen_joint));
    let rot = (seed % 7) as usize;
    let mut stats = Stats::new();
    let mut cap_hit: Option<String> = None;
    let mut transitions: u64 = 0;

    // ---- roots
    let mut roots: Vec<Option<RefConf>> = vec![None];
    roots.extend(valid_configs(&pass.univ).into_iter().map(Some));
    shuffle(&mut roots[1..], seed);
    let mut nodes: Vec<Node> = vec![];
    let mut seen: HashMap<u128, u32> = HashMap::new();
    let mut frontier: Vec<u32> = vec![];
    let mut mcx = Cx::new(&u);
    for (ri, r) in roots.iter().enumerate() {
        transitions += 1;
        let ops = json!({"universe": u.ids, "root": r.as_ref().map(conf_json).unwrap_or(Value::Null), "rot": rot, "steps": []});
        match build_root(&mut mcx, r, rot) {
            Err(vs) => {
                for (k, d) in vs {
                    record(found, k, Found { depth: 0, parent: 0, op: ri as u32, detail: d, ops: ops.clone() });
                }
            }
            Ok((t, m)) => {
                let key = pair_key(&t, &m);
                if seen.contains_key(&key) {
                    continue;
                }
                let vs = state_check(&mut mcx, &t, &m);
                if !vs.is_empty() {
                    for (k, d) in vs {
                        record(found, k, Found { depth: 0, parent: 0, op: ri as u32, detail: d, ops: ops.clone() });
                    }
                    continue;
                }
                seen.insert(key, nodes.len() as u32);
                frontier.push(nodes.len() as u32);
                nodes.push(Node { tr: t, model: m, parent: u32::MAX, op: ri as u32, depth: 0, key });
            }
        }
    }
    let n_roots = nodes.len();

    // ---- level-synchronous parallel BFS
    let mut depth = 0u32;
    let mut max_depth = 0u32;
    let stop = AtomicBool::new(false);
    let enough = AtomicBool::new(false);
    let nops_nonjoint = table.n_ops(pass.maxlen_nonjoint);
    let nops_joint = table.n_ops(pass.maxlen_joint);
    while !frontier.is_empty() {
        if found.lock().unwrap().len() >= MAX_KINDS {
            cap_hit = Some(format!("stopped after {} distinct violation kinds", MAX_KINDS));
            break;
        }
        shuffle(&mut frontier, seed);
        let next_i = AtomicUsize::new(0);
        // per thread: candidate successors (key -> smallest (parent, op)), stats, transition count
        let results: Vec<(HashMap<u128, (u32, u32)>, Stats, u64)> = std::thread::scope(|sc| {
            let hs: Vec<_> = (0..threads)
                .map(|_| {
                    sc.spawn(|| {
                        let mut cx = Cx::new(&u);
                        let mut cand: HashMap<u128, (u32, u32)> = HashMap::new();
                        let mut ntr = 0u64;
                        loop {
                            let i = next_i.fetch_add(1, Ordering::Relaxed);
                            if i >= frontier.len() || stop.load(Ordering::Relaxed) || enough.load(Ordering::Relaxed) {
                                break;
                            }
                            if found.lock().unwrap().len() >= MAX_KINDS {
                                enough.store(true, Ordering::Relaxed);
                                break;
                            }
                            if t0.elapsed().as_secs_f64() > budget_s {
                                stop.store(true, Ordering::Relaxed);
                                break;
                            }
                            let ni = frontier[i];
                            let node = &nodes[ni as usize];
                            let snap = node.tr.clone();
                            let old = impl_conf(&snap);
                            let nops = if old.joint() { nops_joint } else { nops_nonjoint };
                            for oi in 0..nops {
                                ntr += 1;
                                let out = step(&mut cx, &node.tr, &snap, &old, &node.model, table.op(oi), table.ccs(oi));
                                for (k, d) in out.viols {
                                    let ops = path_json(&u, &nodes, &roots, &table, ni, Some(oi as u32), rot);
                                    record(found, k, Found { depth: depth + 1, parent: ni, op: oi as u32, detail: d, ops });
                                }
                                if let Some((t2, m2)) = out.next {
                                    let key = pair_key(&t2, &m2);
                                    if !seen.contains_key(&key) {
                                        let e = cand.entry(key).or_insert((ni, oi as u32));
                                        if (ni, oi as u32) < *e {
                                            *e = (ni, oi as u32);
                                        }
                                    }
                                }
                            }
                        }
                        (cand, cx.st, ntr)
                    })
                })
                .collect();
            hs.into_iter().map(|h| h.join().expect("worker thread")).collect()
        });
        let mut merged: HashMap<u128, (u32, u32)> = HashMap::new();
        for (cand, st, ntr) in results {
            stats.merge(&st);
            transitions += ntr;
            for (k, v) in cand {
                let e = merged.entry(k).or_insert(v);
                if v < *e {
                    *e = v;
                }
            }
        }
        if stop.load(Ordering::Relaxed) {
            cap_hit = Some(format!("time budget {:.0}s exhausted at depth {}", budget_s, depth));
            break;
        }
        if enough.load(Ordering::Relaxed) {
            cap_hit = Some(format!("stopped after {} distinct violation kinds", MAX_KINDS));
            break;
        }
        let mut adopt: Vec<(u32, u32, u128)> = merged.into_iter().map(|(k, (p, o))| (p, o, k)).collect();
        adopt.sort();
        depth += 1;
        let mut next_frontier = vec![];
        for (p, o, key) in adopt {
            // re-execute the operation on the parent (determinism check included)
            let (t2, m2) = {
                let node = &nodes[p as usize];
                let snap = node.tr.clone();
                let old = impl_conf(&snap);
                let mut scratch = Cx::new(&u);
                std::mem::swap(&mut scratch.qmemo, &mut mcx.qmemo);
                let out = step(&mut scratch, &node.tr, &snap, &old, &node.model, table.op(o as usize), table.ccs(o as usize));
                std::mem::swap(&mut scratch.qmemo, &mut mcx.qmemo);
                match out.next {
                    Some(x) if pair_key(&x.0, &x.1) == key => x,
                    _ => {
                        record(
                            found,
                            "nondeterministic-reexecution".into(),
                            Found { depth, parent: p, op: o, detail: "re-executing an operation on the same state gave a different result".into(), ops: path_json(&u, &nodes, &roots, &table, p, Some(o), rot) },
                        );
                        continue;
                    }
                }
            };
            let vs = state_check(&mut mcx, &t2, &m2);
            if !vs.is_empty() {
                let ops = path_json(&u, &nodes, &roots, &table, p, Some(o), rot);
                for (k, d) in vs {
                    record(found, k, Found { depth, parent: p, op: o, detail: d, ops: ops.clone() });
                }
                continue;
            }
            if nodes.len() >= state_cap {
                cap_hit = Some(format!("state cap {}", state_cap));
                break;
            }
            seen.insert(key, nodes.len() as u32);
            next_frontier.push(nodes.len() as u32);
            nodes.push(Node { tr: t2, model: m2, parent: p, op: o, depth, key });
            max_depth = depth;
        }
        if cap_hit.is_some() {
            break;
        }
        frontier = next_frontier;
    }
    stats.merge(&mcx.st);

    // ---- determinism / replay self-check: operation paths (BFS-tree paths of the deepest states
    // and pseudo-random walks of up to 5 successful operations from pseudo-random states) are
    // written out as JSON, re-executed from their root through the replay entry point with all
    // checks, and the final pair key is compared.
    let mut validated = 0u64;
    let mut samples: Vec<Value> = vec![];
    if !nodes.is_empty() && found.lock().unwrap().is_empty() {
        let mut x = seed.wrapping_mul(0x2545f4914f6cdd1d) ^ 0x9e3779b97f4a7c15;
        let mut cx = Cx::new(&u);
        let mut paths: Vec<(Value, u128)> = vec![];
        let mut by_depth: Vec<u32> = (0..nodes.len() as u32).collect();
        by_depth.sort_by_key(|i| std::cmp::Reverse(nodes[*i as usize].depth));
        for at in by_depth.iter().take(60) {
            paths.push((path_json(&u, &nodes, &roots, &table, *at, None, rot), nodes[*at as usize].key));
        }
        for _ in 0..340 {
            let at = (xorshift(&mut x) % nodes.len() as u64) as u32;
            let mut j = path_json(&u, &nodes, &roots, &table, at, None, rot);
            let (mut t, mut m) = (nodes[at as usize].tr.clone(), nodes[at as usize].model.clone());
            let want = 1 + xorshift(&mut x) % 5;
            let mut taken = 0;
            for _ in 0..400 {
                if taken == want {
                    break;
                }
                let snap = t.clone();
                let old = impl_conf(&snap);
                // from a joint configuration leave_joint is the only operation that can succeed
                let oi = if old.joint() { 0 } else { (xorshift(&mut x) % nops_nonjoint as u64) as usize };
                let out = step(&mut cx, &t, &snap, &old, &m, table.op(oi), table.ccs(oi));
                if let Some((t2, m2)) = out.next {
                    t = t2;
                    m = m2;
                    j["steps"].as_array_mut().unwrap().push(table.op(oi).to_json());
                    taken += 1;
                }
            }
            paths.push((j, pair_key(&t, &m)));
        }
        let mut cx2 = Cx::new(&u);
        for (n, (j, key)) in paths.iter().enumerate() {
            // through text, as a replay file would be
            let j2: Value = serde_json::from_str(&j.to_string()).unwrap_or(Value::Null);
            match run_path(&mut cx2, &j2) {
                Ok((Some((t, m)), vs)) if vs.is_empty() && pair_key(&t, &m) == *key => validated += 1,
                _ => record(
                    found,
                    "nondeterministic-replay".into(),
                    Found { depth: 0, parent: 0, op: 0, detail: "re-executing a recorded path from its root gave a different final state".into(), ops: j.clone() },
                ),
            }
            let nsteps = j["steps"].as_array().map(|a| a.len()).unwrap_or(0);
            if samples.len() < 3 && (nsteps >= 4 || n + 3 >= paths.len()) {
                samples.push(j.clone());
            }
        }
    }

    let info = json!({
        "id_universe": pass.univ,
        "change_ids": u.change_ids(),
        "max_change_list_len_from_nonjoint": pass.maxlen_nonjoint,
        "max_change_list_len_from_joint": pass.maxlen_joint,
        "ops_per_nonjoint_state": nops_nonjoint,
        "ops_per_joint_state": nops_joint,
        "quorum_subsets": u.nsub,
        "roots": n_roots,
        "states": nodes.len(),
        "transitions": transitions,
        "max_depth": max_depth,
    });
    PassResult { states: nodes.len() as u64, transitions, validated, cap_hit, samples, stats, info }
}

pub fn run(tier: &str, seed: u64, budget_s: f64, threads: usize) -> CompResult {
    let t0 = Instant::now();
    let cfg = tier_cfg(tier);
    let threads = threads.max(1);
    let mut stats = Stats::new();
    let found: Mutex<BTreeMap<String, Found>> = Mutex::new(BTreeMap::new());
    let mut cap_hit: Option<String> = None;
    let mut transitions: u64 = 0;
    let mut states: u64 = 0;
    let mut validated: u64 = 0;
    let mut samples: Vec<Value> = vec![];
    let mut infos: Vec<Value> = vec![];

    // ---- stateless part: ConfChangeV2 classification
    {
        let u = Univ::new(&cfg.passes[0].univ);
        let ct = OpTable::new(&u, cfg.classify_len);
        for t in [ConfChangeTransition::Auto, ConfChangeTransition::Implicit, ConfChangeTransition::Explicit] {
            for l in &ct.lists {
                for ctx in [false, true] {
                    transitions += 1;
                    for (k, d) in classify_one(&mut stats, t, l, ctx) {
                        record(&found, k, Found { depth: 0, parent: 0, op: 0, detail: d, ops: classify_ops(t, l, ctx) });
                    }
                }
            }
        }
    }

    // ---- exploration passes
    for pass in &cfg.passes {
        if cap_hit.is_some() {
            break;
        }
        let r = run_pass(pass, cfg.state_cap, seed, t0, budget_s, threads, &found);
        states += r.states;
        transitions += r.transitions;
        validated += r.validated;
        stats.merge(&r.stats);
        cap_hit = r.cap_hit;
        for s in r.samples {
            if samples.len() < 3 {
                samples.push(s);
            }
        }
        infos.push(r.info);
    }

    // ---- result
    let mut sj = serde_json::Map::new();
    for (i, n) in STAT_NAMES.iter().enumerate() {
        sj.insert(n.to_string(), json!(stats.0[i]));
    }
    sj.insert("passes".into(), json!(infos));
    let must = [
        "ok_simple",
        "ok_enter_joint",
        "ok_leave_joint",
        "err_simple_in_joint",
        "err_more_than_one_voter",
        "err_removed_all_voters",
        "err_already_joint",
        "err_zero_voter_joint",
        "err_not_joint",
        "err_atomicity_checked",
        "simple_voter_delta_0",
        "simple_voter_delta_1",
        "quorum_steps_checked",
        "quorum_pairs_checked",
        "has_quorum_evaluations",
        "restores_checked",
        "states_joint",
        "states_learners_next_nonempty",
        "states_auto_leave",
        "states_with_learners",
        "id0_changes_in_ok_lists",
        "unknown_id_became_member",
        "classification_cases",
        "classification_enter_joint_some",
        "classification_leave_joint_true",
    ];
    let violations: Vec<(String, String, Value)> = found
        .into_inner()
        .unwrap()
        .into_iter()
        .take(MAX_KINDS)
        .map(|(k, f)| (k, f.detail, f.ops))
        .collect();
    // a broken reference-model dispatcher is a machinery failure, not a verdict
    let model_ok = stats.get("refconf_apply_v2_mismatch") == 0;
    let nonvacuous = if !violations.is_empty() || cap_hit.is_some() {
        // counters of an aborted run say nothing about vacuity
        model_ok
    } else {
        model_ok && must.iter().all(|n| stats.get(n) > 0)
    };
    CompResult {
        engine: ENGINE.to_string(),
        states,
        transitions,
        validated,
        exhaustive: cap_hit.is_none() && violations.is_empty(),
        cap_hit,
        samples,
        stats: Value::Object(sj),
        violations,
        nonvacuous,
        wall_s: t0.elapsed().as_secs_f64(),
    }
}

/// Executes {"root":…, "rot":…, "steps":[…]} with all checks. Returns the final pair (None if a
/// violation closed the path) and every violation seen on the way. Err = malformed input.
#[allow(clippy::type_complexity)]
fn run_path(cx: &mut Cx, j: &Value) -> Result<(Option<(ProgressTracker, RefConf)>, Vec<Viol>), String> {
    run_path_v(cx, j, false)
}

#[allow(clippy::type_complexity)]
fn run_path_v(cx: &mut Cx, j: &Value, verbose: bool) -> Result<(Option<(ProgressTracker, RefConf)>, Vec<Viol>), String> {
    let root = match j.get("root") {
        None => return Err("no root".into()),
        Some(Value::Null) => None,
        Some(v) => Some(conf_from_json(v).ok_or("bad root")?),
    };
    let rot = j.get("rot").and_then(|v| v.as_u64()).unwrap_or(0) as usize;
    let steps = j.get("steps").and_then(|v| v.as_array()).ok_or("no steps")?;
    let mut viols = vec![];
    let (mut t, mut m) = match build_root(cx, &root, rot) {
        Ok(x) => x,
        Err(vs) => return Ok((None, vs)),
    };
    viols.extend(state_check(cx, &t, &m));
    if !viols.is_empty() {
        return Ok((None, viols));
    }
    for s in steps {
        let op = Op::from_json(s).ok_or_else(|| format!("bad step {}", s))?;
        let ccs: Vec<ConfChangeSingle> = match &op {
            Op::Simple(l) | Op::Enter(_, l) => l.iter().map(ch_to_single).collect(),
            Op::Leave => vec![],
        };
        let snap = t.clone();
        let old = impl_conf(&snap);
        let out = step(cx, &t, &snap, &old, &m, &op, &ccs);
        if verbose {
            match &out.next {
                Some((t2, _)) => println!("step: {} -> Ok {} progress={:?}", s, conf_str(&impl_conf(t2)), prog_ids(t2)),
                None if out.viols.is_empty() => println!("step: {} -> Err (rejected, tracker unchanged)", s),
                None => println!("step: {} -> VIOLATION", s),
            }
        }
        viols.extend(out.viols);
        match out.next {
            None => return Ok((None, viols)),
            Some((t2, m2)) => {
                t = t2;
                m = m2;
            }
        }
        viols.extend(state_check(cx, &t, &m));
        if !viols.is_empty() {
            return Ok((None, viols));
        }
    }
    Ok((Some((t, m)), viols))
}

pub fn replay(j: &Value) -> i32 {
    let kind = j.get("kind").and_then(|v| v.as_str()).unwrap_or("");
    let Some(ops) = j.get("ops") else {
        eprintln!("confchange replay: no ops");
        return 2;
    };
    let viols: Vec<Viol> = if let Some(c) = ops.get("classify") {
        let t = c.get("transition").and_then(|v| v.as_str()).and_then(tr_from);
        let l: Option<Vec<Ch>> = c
            .get("changes")
            .and_then(|v| v.as_array())
            .and_then(|a| a.iter().map(|v| v.as_str().and_then(parse_ch)).collect());
        let ctx = c.get("context").and_then(|v| v.as_bool()).unwrap_or(false);
        let (Some(t), Some(l)) = (t, l) else {
            eprintln!("confchange replay: bad classify input");
            return 2;
        };
        println!("ConfChangeV2 transition={} changes={:?} context={}", tr_name(t), l.iter().map(ch_str).collect::<Vec<_>>(), ctx);
        classify_one(&mut Stats::new(), t, &l, ctx)
    } else {
        let ids: Vec<u64> = match ops.get("universe").and_then(|v| v.as_array()) {
            Some(a) => a.iter().filter_map(|v| v.as_u64()).collect(),
            None => vec![1, 2, 3, 4, 9],
        };
        if ids.is_empty() || ids.len() > 6 || ids.contains(&0) {
            eprintln!("confchange replay: bad universe");
            return 2;
        }
        let u = Univ::new(&ids);
        let mut cx = Cx::new(&u);
        println!("root: {}", ops.get("root").map(|r| r.to_string()).unwrap_or_default());
        match run_path_v(&mut cx, ops, true) {
            Ok((fin, v)) => {
                if let Some((t, _)) = fin {
                    println!("final: {} progress={:?}", conf_str(&impl_conf(&t)), prog_ids(&t));
                }
                v
            }
            Err(e) => {
                eprintln!("confchange replay: {}", e);
                return 2;
            }
        }
    };
    for (k, d) in &viols {
        println!("violation [{}] {}", k, d);
    }
    if viols.iter().any(|(k, _)| k == kind) || (kind.is_empty() && !viols.is_empty()) {
        1
    } else {
        println!("no violation of kind [{}] on this replay", kind);
        0
    }
}
