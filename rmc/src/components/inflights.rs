//! C18 — `raft::Inflights` is a bounded FIFO under resizing.
//!
//! Joint breadth-first search over pairs *(real `Inflights`, reference model)*. The model is a
//! `VecDeque<u64>` plus the capacity in force and the pending (reduced) capacity. Every
//! operation of the alphabet is applied from every reachable pair until a fixpoint is reached
//! under the bound on the number of `add`s.
//!
//! `Inflights: Clone` does not preserve `Vec::capacity()` (which `add`/`set_cap` branch on), so
//! states are never cloned: every expansion re-executes the recorded shortest operation path
//! from `Inflights::new(cap)` and then applies one more operation. Every explored pair is
//! therefore reached by a real call history, and a reported sequence is a shortest one.
//!
//! Alphabet (from `new(c)`, c in 1..=C; indexes start at 1, `next` = last added + 1;
//! quick: C = 4 and at most 8 adds per history, thorough: C = 7 and at most 14 adds):
//!   add(next), add(next+2)      only when the model is not full (documented panic otherwise)
//!                               and fewer than ADD_BOUND adds were made
//!   free_to(v)                  v in first-1 ..= last+1 (every element, every gap, both outsides);
//!                               on an empty window v in {0, next-1, next}
//!   free_first_one, reset, maybe_free_buffer
//!   set_cap(c)                  c in 0..=C
//!
//! Oracle after every operation: no panic; `count()`, `full()` and the window contents (FIFO
//! order, via `verif_view()`) equal the model; `full()` == (len >= most recently requested
//! capacity); once the window has drained the requested capacity is the capacity in force and
//! nothing is pending; `maybe_free_buffer` releases the buffer of an empty window and changes
//! nothing observable otherwise.

use crate::check::CompResult;
use crate::util::guarded;
use raft::Inflights;
use serde_json::{json, Value};
use std::collections::{HashMap, VecDeque};
use std::time::Instant;

const ENGINE: &str = "inflights";
const MAX_KINDS: usize = 5;

#[derive(Clone, Copy, Debug, PartialEq, Eq)]
enum Op {
    Add(u64),
    FreeTo(u64),
    FreeFirst,
    Reset,
    SetCap(usize),
    MaybeFree,
}

impl Op {
    fn to_json(self) -> Value {
        match self {
            Op::Add(v) => json!({"op": "add", "v": v}),
            Op::FreeTo(v) => json!({"op": "free_to", "v": v}),
            Op::FreeFirst => json!({"op": "free_first_one"}),
            Op::Reset => json!({"op": "reset"}),
            Op::SetCap(c) => json!({"op": "set_cap", "v": c}),
            Op::MaybeFree => json!({"op": "maybe_free_buffer"}),
        }
    }
    fn from_json(j: &Value) -> Option<Op> {
        let v = j.get("v").and_then(|x| x.as_u64());
        Some(match j.get("op")?.as_str()? {
            "add" => Op::Add(v?),
            "free_to" => Op::FreeTo(v?),
            "free_first_one" => Op::FreeFirst,
            "reset" => Op::Reset,
            "set_cap" => Op::SetCap(v? as usize),
            "maybe_free_buffer" => Op::MaybeFree,
            _ => return None,
        })
    }
    fn pack(self) -> u16 {
        match self {
            Op::Add(v) => (v as u16) << 3,
            Op::FreeTo(v) => 1 | (v as u16) << 3,
            Op::FreeFirst => 2,
            Op::Reset => 3,
            Op::SetCap(c) => 4 | (c as u16) << 3,
            Op::MaybeFree => 5,
        }
    }
    fn unpack(p: u16) -> Op {
        let v = (p >> 3) as u64;
        match p & 7 {
            0 => Op::Add(v),
            1 => Op::FreeTo(v),
            2 => Op::FreeFirst,
            3 => Op::Reset,
            4 => Op::SetCap(v as usize),
            _ => Op::MaybeFree,
        }
    }
}

/// The boring reference: a FIFO, the capacity in force, a pending reduced capacity.
#[derive(Clone, Debug, PartialEq, Eq, Hash)]
struct Model {
    win: VecDeque<u64>,
    cap: usize,
    pending: Option<usize>,
    /// smallest index the next add may use (last added + 1)
    next: u64,
    adds: u32,
}

impl Model {
    fn new(cap: usize) -> Model {
        Model { win: VecDeque::new(), cap, pending: None, next: 1, adds: 0 }
    }
    /// The most recently requested capacity: what admission is judged against.
    fn limit(&self) -> usize {
        self.pending.unwrap_or(self.cap)
    }
    fn full(&self) -> bool {
        self.win.len() >= self.limit()
    }
    fn drained(&mut self) {
        if self.win.is_empty() {
            if let Some(c) = self.pending.take() {
                self.cap = c;
            }
        }
    }
    fn apply(&mut self, op: Op) {
        match op {
            Op::Add(v) => {
                self.win.push_back(v);
                self.next = v + 1;
                self.adds += 1;
            }
            Op::FreeTo(v) => {
                while self.win.front().is_some_and(|f| *f <= v) {
                    self.win.pop_front();
                }
                self.drained();
            }
            Op::FreeFirst => {
                self.win.pop_front();
                self.drained();
            }
            Op::Reset => {
                self.win.clear();
                self.drained();
            }
            Op::SetCap(c) => {
                if c >= self.cap {
                    self.cap = c;
                    self.pending = None;
                } else if self.win.is_empty() {
                    self.cap = c;
                    self.pending = None;
                } else {
                    self.pending = Some(c);
                }
            }
            Op::MaybeFree => {}
        }
    }
    fn alphabet(&self, add_bound: u32, max_cap: usize, out: &mut Vec<Op>) {
        out.clear();
        if !self.full() && self.adds < add_bound {
            out.push(Op::Add(self.next));
            out.push(Op::Add(self.next + 2));
        }
        match (self.win.front(), self.win.back()) {
            (Some(&f), Some(&l)) => {
                for v in f.saturating_sub(1)..=l + 1 {
                    out.push(Op::FreeTo(v));
                }
            }
            _ => {
                out.push(Op::FreeTo(0));
                if self.next > 1 {
                    out.push(Op::FreeTo(self.next - 1));
                }
                out.push(Op::FreeTo(self.next));
            }
        }
        out.push(Op::FreeFirst);
        out.push(Op::Reset);
        out.push(Op::MaybeFree);
        for c in 0..=max_cap {
            out.push(Op::SetCap(c));
        }
    }
}

fn panic_kind(op: Op) -> String {
    match op {
        Op::Add(_) => "add-panicked-when-model-not-full".to_string(),
        Op::FreeTo(_) => "panic-in-free_to".into(),
        Op::FreeFirst => "panic-in-free_first_one".into(),
        Op::Reset => "panic-in-reset".into(),
        Op::SetCap(_) => "panic-in-set_cap".into(),
        Op::MaybeFree => "panic-in-maybe_free_buffer".into(),
    }
}

fn apply_impl(inf: &mut Inflights, op: Op) {
    match op {
        Op::Add(v) => inf.add(v),
        Op::FreeTo(v) => inf.free_to(v),
        Op::FreeFirst => inf.free_first_one(),
        Op::Reset => inf.reset(),
        Op::SetCap(c) => inf.set_cap(c),
        Op::MaybeFree => inf.maybe_free_buffer(),
    }
}

/// Canonical key of the pair. The `Debug` rendering of `Inflights` covers every field
/// (start, count, the whole ring including stale slots, cap, incoming_cap); the allocated
/// capacity of the buffer is part of the key as well: the code branches on whether it is
/// zero, and `Vec::reserve` may over-allocate when `set_cap` grows a window in place, a
/// difference only a history through that path exhibits (seeded change C18d hid there).
fn pair_key(inf: &Inflights, m: &Model) -> String {
    format!("{:?}|{}|{:?}|{}|{:?}|{}|{}", inf, inf.buffer_capacity(), m.win, m.cap, m.pending, m.next, m.adds)
}

#[derive(Default, Clone)]
struct Counters {
    wraps: u64,
    grow_wrapped: u64,
    grow_unwrapped_nonempty: u64,
    shrink_nonempty: u64,
    shrink_empty: u64,
    drain_pending: u64,
    drain_pending_by_reset: u64,
    set_cap_makes_full: u64,
    set_cap_zero: u64,
    adds: u64,
    adds_into_unallocated: u64,
    free_to_noop: u64,
    free_to_partial: u64,
    free_to_all: u64,
    free_to_gap: u64,
    maybe_free_released: u64,
    maybe_free_nonempty: u64,
    full_seen: u64,
    full_by_pending: u64,
    replayed_ops: u64,
}

impl Counters {
    fn merge(&mut self, o: &Counters) {
        self.wraps += o.wraps;
        self.grow_wrapped += o.grow_wrapped;
        self.grow_unwrapped_nonempty += o.grow_unwrapped_nonempty;
        self.shrink_nonempty += o.shrink_nonempty;
        self.shrink_empty += o.shrink_empty;
        self.drain_pending += o.drain_pending;
        self.drain_pending_by_reset += o.drain_pending_by_reset;
        self.set_cap_makes_full += o.set_cap_makes_full;
        self.set_cap_zero += o.set_cap_zero;
        self.adds += o.adds;
        self.adds_into_unallocated += o.adds_into_unallocated;
        self.free_to_noop += o.free_to_noop;
        self.free_to_partial += o.free_to_partial;
        self.free_to_all += o.free_to_all;
        self.free_to_gap += o.free_to_gap;
        self.maybe_free_released += o.maybe_free_released;
        self.maybe_free_nonempty += o.maybe_free_nonempty;
        self.full_seen += o.full_seen;
        self.full_by_pending += o.full_by_pending;
        self.replayed_ops += o.replayed_ops;
    }
    fn json(&self) -> Value {
        json!({
            "ring_wraparounds_seen": self.wraps,
            "grows_while_wrapped": self.grow_wrapped,
            "grows_unwrapped_nonempty": self.grow_unwrapped_nonempty,
            "shrinks_while_nonempty": self.shrink_nonempty,
            "shrinks_while_empty": self.shrink_empty,
            "drains_with_pending_cap": self.drain_pending,
            "drains_with_pending_cap_by_reset": self.drain_pending_by_reset,
            "set_cap_making_window_full": self.set_cap_makes_full,
            "set_cap_zero": self.set_cap_zero,
            "adds": self.adds,
            "adds_into_unallocated_buffer": self.adds_into_unallocated,
            "free_to_left_of_window": self.free_to_noop,
            "free_to_partial": self.free_to_partial,
            "free_to_everything": self.free_to_all,
            "free_to_gap_value": self.free_to_gap,
            "maybe_free_buffer_released": self.maybe_free_released,
            "maybe_free_buffer_on_nonempty": self.maybe_free_nonempty,
            "full_states_seen": self.full_seen,
            "full_because_of_pending_cap": self.full_by_pending,
            "prefix_ops_reexecuted": self.replayed_ops,
        })
    }
}

/// Compares every observer of the implementation with the model after `op`.
/// `before` is the model before the operation. Returns (kind, detail) on disagreement.
fn compare(inf: &Inflights, before: &Model, m: &Model, op: Op, was_allocated: bool) -> Option<(String, String)> {
    let opn = match op {
        Op::Add(_) => "add",
        Op::FreeTo(_) => "free_to",
        Op::FreeFirst => "free_first_one",
        Op::Reset => "reset",
        Op::SetCap(_) => "set_cap",
        Op::MaybeFree => "maybe_free_buffer",
    };
    let (start, count, cap, incoming, win) = inf.verif_view();
    let mwin: Vec<u64> = m.win.iter().copied().collect();
    let ctx = || {
        format!(
            "after {:?}: impl(start={}, count={}, cap={}, incoming_cap={:?}, window={:?}, full={}, allocated={}) model(window={:?}, cap_in_force={}, pending={:?}, full={})",
            op, start, count, cap, incoming, win, inf.full(), inf.buffer_capacity() > 0, mwin, m.cap, m.pending, m.full()
        )
    };
    if inf.count() != m.win.len() || count != m.win.len() {
        return Some((format!("count-mismatch-after-{}", opn), ctx()));
    }
    if win != mwin {
        // classify: lost / duplicated / reordered / foreign
        let what = if win.len() != mwin.len() {
            "length"
        } else {
            let mut a = win.clone();
            let mut b = mwin.clone();
            a.sort_unstable();
            b.sort_unstable();
            if a == b {
                "reordered"
            } else {
                a.dedup();
                if a.len() < win.len() {
                    "duplicated"
                } else {
                    "lost-or-foreign"
                }
            }
        };
        return Some((format!("window-{}-after-{}", what, opn), ctx()));
    }
    if inf.full() != m.full() {
        return Some((format!("full-mismatch-after-{}", opn), ctx()));
    }
    if m.win.is_empty() {
        // drained (or never filled): the requested capacity must be the one in force
        if cap != m.cap || incoming.is_some() {
            return Some((format!("capacity-not-in-force-when-drained-after-{}", opn), ctx()));
        }
    }
    if let Op::MaybeFree = op {
        if before.win.is_empty() {
            if inf.buffer_capacity() != 0 {
                return Some(("maybe_free_buffer-kept-buffer-of-empty-window".into(), ctx()));
            }
        } else if (inf.buffer_capacity() > 0) != was_allocated {
            return Some(("maybe_free_buffer-released-buffer-of-nonempty-window".into(), ctx()));
        }
    }
    None
}

struct Node {
    parent: u32,
    op: u16,
    init_cap: u8,
    model: Model,
}

fn path_of(nodes: &[Node], mut i: u32) -> (usize, Vec<Op>) {
    let mut ops = vec![];
    while nodes[i as usize].parent != u32::MAX {
        ops.push(Op::unpack(nodes[i as usize].op));
        i = nodes[i as usize].parent;
    }
    ops.reverse();
    (nodes[i as usize].init_cap as usize, ops)
}

fn ops_json(init_cap: usize, ops: &[Op]) -> Value {
    json!({"init_cap": init_cap, "ops": ops.iter().map(|o| o.to_json()).collect::<Vec<_>>()})
}

/// Rebuilds the implementation by executing `ops` from `new(init_cap)`.
fn rebuild(init_cap: usize, ops: &[Op]) -> Result<Inflights, (String, String)> {
    guarded(|| {
        let mut inf = Inflights::new(init_cap);
        for &op in ops {
            apply_impl(&mut inf, op);
        }
        inf
    })
}

struct Succ {
    parent: u32,
    op: Op,
    key: String,
    model: Model,
}

struct Found {
    kind: String,
    detail: String,
    parent: u32,
    op: Op,
}

/// Expands the frontier nodes `idxs`: all successors, counters and violations.
fn expand(nodes: &[Node], idxs: &[u32], add_bound: u32, max_cap: usize, deadline: Instant) -> (Vec<Succ>, Vec<Found>, Counters, u64, bool) {
    let mut succs = vec![];
    let mut found = vec![];
    let mut c = Counters::default();
    let mut transitions = 0u64;
    let mut alpha = vec![];
    for (n, &i) in idxs.iter().enumerate() {
        if n % 64 == 0 && Instant::now() > deadline {
            return (succs, found, c, transitions, true);
        }
        let (init_cap, path) = path_of(nodes, i);
        let before = &nodes[i as usize].model;
        before.alphabet(add_bound, max_cap, &mut alpha);
        for &op in &alpha {
            c.replayed_ops += path.len() as u64;
            let mut inf = match rebuild(init_cap, &path) {
                Ok(x) => x,
                Err((msg, loc)) => {
                    // cannot happen: the prefix ran without a panic when the node was created
                    found.push(Found {
                        kind: "machinery-prefix-replay-panicked".into(),
                        detail: format!("{} @ {}", msg, loc),
                        parent: i,
                        op,
                    });
                    continue;
                }
            };
            let (s0, c0, cap0, inc0, _) = inf.verif_view();
            let was_alloc = inf.buffer_capacity() > 0;
            let wrapped0 = s0 + c0 > cap0;
            transitions += 1;
            let r = guarded(|| {
                apply_impl(&mut inf, op);
                inf
            });
            let inf = match r {
                Ok(x) => x,
                Err((msg, loc)) => {
                    let kind = panic_kind(op);
                    found.push(Found {
                        kind,
                        detail: format!(
                            "{:?} panicked: {} @ {}; before: impl(start={}, count={}, cap={}, incoming_cap={:?}) model(window={:?}, cap_in_force={}, pending={:?}, full={})",
                            op, msg, loc, s0, c0, cap0, inc0, before.win, before.cap, before.pending, before.full()
                        ),
                        parent: i,
                        op,
                    });
                    continue;
                }
            };
            let mut m = before.clone();
            m.apply(op);
            // non-vacuity bookkeeping (from the model and the read-only view)
            let (s1, c1, cap1, _, _) = inf.verif_view();
            if s1 + c1 > cap1 {
                c.wraps += 1;
            }
            match op {
                Op::Add(_) => {
                    c.adds += 1;
                    if !was_alloc {
                        c.adds_into_unallocated += 1;
                    }
                }
                Op::SetCap(n) => {
                    if n == 0 {
                        c.set_cap_zero += 1;
                    }
                    if n > before.cap {
                        if wrapped0 {
                            c.grow_wrapped += 1;
                        } else if !before.win.is_empty() {
                            c.grow_unwrapped_nonempty += 1;
                        }
                    } else if n < before.cap {
                        if before.win.is_empty() {
                            c.shrink_empty += 1;
                        } else {
                            c.shrink_nonempty += 1;
                        }
                    }
                    if !before.full() && m.full() {
                        c.set_cap_makes_full += 1;
                    }
                }
                Op::FreeTo(v) => {
                    let removed = before.win.len() - m.win.len();
                    if removed == 0 {
                        c.free_to_noop += 1;
                    } else if m.win.is_empty() {
                        c.free_to_all += 1;
                    } else {
                        c.free_to_partial += 1;
                    }
                    if !before.win.is_empty() && !before.win.contains(&v) && v > before.win[0] && v < *before.win.back().unwrap() {
                        c.free_to_gap += 1;
                    }
                }
                Op::MaybeFree => {
                    if before.win.is_empty() {
                        if was_alloc {
                            c.maybe_free_released += 1;
                        }
                    } else {
                        c.maybe_free_nonempty += 1;
                    }
                }
                _ => {}
            }
            if before.pending.is_some() && m.win.is_empty() && !before.win.is_empty() {
                c.drain_pending += 1;
                if op == Op::Reset {
                    c.drain_pending_by_reset += 1;
                }
            }
            if m.full() {
                c.full_seen += 1;
                if m.pending.is_some() && m.win.len() < m.cap {
                    c.full_by_pending += 1;
                }
            }
            if let Some((kind, detail)) = compare(&inf, before, &m, op, was_alloc) {
                found.push(Found { kind, detail, parent: i, op });
                continue;
            }
            let key = pair_key(&inf, &m);
            succs.push(Succ { parent: i, op, key, model: m });
        }
    }
    (succs, found, c, transitions, false)
}

fn shuffle<T>(v: &mut [T], seed: u64) {
    if seed == 0 {
        return;
    }
    let mut s = seed;
    for i in (1..v.len()).rev() {
        s = crate::util::mix(s, i as u64);
        v.swap(i, (s % (i as u64 + 1)) as usize);
    }
}

pub fn run(tier: &str, seed: u64, budget_s: f64, threads: usize) -> CompResult {
    let t0 = Instant::now();
    let (add_bound, max_cap): (u32, usize) = if tier == "thorough" { (14, 7) } else { (8, 4) };
    let state_cap: usize = 40_000_000;
    let deadline = t0 + std::time::Duration::from_secs_f64((budget_s * 0.9).max(1.0));
    let threads = threads.clamp(1, 64);

    let mut nodes: Vec<Node> = vec![];
    let mut seen: HashMap<String, u32> = HashMap::new();
    let mut frontier: Vec<u32> = vec![];
    let mut violations: Vec<(String, String, Value)> = vec![];
    let mut counters = Counters::default();
    let mut transitions = 0u64;
    let mut cap_hit: Option<String> = None;

    for c in 1..=max_cap {
        let inf = Inflights::new(c);
        let m = Model::new(c);
        let key = pair_key(&inf, &m);
        let idx = nodes.len() as u32;
        // the initial pair must agree too
        if inf.count() != 0 || inf.full() != m.full() {
            violations.push((
                "new-disagrees-with-model".into(),
                format!("Inflights::new({}) count={} full={}", c, inf.count(), inf.full()),
                ops_json(c, &[]),
            ));
        }
        nodes.push(Node { parent: u32::MAX, op: 0, init_cap: c as u8, model: m });
        seen.insert(key, idx);
        frontier.push(idx);
    }

    let mut depth = 0u32;
    let mut max_depth = 0u32;
    while !frontier.is_empty() && violations.is_empty() {
        shuffle(&mut frontier, seed.wrapping_add(depth as u64).wrapping_mul((seed != 0) as u64));
        let chunk = frontier.len().div_ceil(threads).max(1);
        let nodes_ref = &nodes;
        let results: Vec<_> = std::thread::scope(|s| {
            let hs: Vec<_> = frontier
                .chunks(chunk)
                .map(|ch| s.spawn(move || expand(nodes_ref, ch, add_bound, max_cap, deadline)))
                .collect();
            hs.into_iter().map(|h| h.join().expect("inflights worker died")).collect()
        });
        let mut next = vec![];
        let mut timed_out = false;
        for (succs, found, c, tr, to) in results {
            counters.merge(&c);
            transitions += tr;
            timed_out |= to;
            for f in found {
                if violations.iter().any(|(k, _, _)| *k == f.kind) || violations.len() >= MAX_KINDS {
                    continue;
                }
                let (init_cap, mut ops) = path_of(&nodes, f.parent);
                ops.push(f.op);
                violations.push((f.kind, f.detail, ops_json(init_cap, &ops)));
            }
            for su in succs {
                if seen.contains_key(&su.key) {
                    continue;
                }
                let idx = nodes.len() as u32;
                let init_cap = nodes[su.parent as usize].init_cap;
                nodes.push(Node { parent: su.parent, op: su.op.pack(), init_cap, model: su.model });
                seen.insert(su.key, idx);
                next.push(idx);
            }
        }
        depth += 1;
        if !next.is_empty() {
            max_depth = depth;
        }
        if timed_out {
            cap_hit = Some(format!("time budget ({:.0}s) exhausted at depth {}", budget_s, depth));
            break;
        }
        if nodes.len() > state_cap {
            cap_hit = Some(format!("state cap {} reached at depth {}", state_cap, depth));
            break;
        }
        frontier = next;
    }

    // determinism self-check: re-execute a few hundred recorded paths from the initial state,
    // step by step against the model, and compare the final pair key with the recorded one.
    let mut validated = 0u64;
    {
        let by_idx: HashMap<u32, &String> = seen.iter().map(|(k, v)| (*v, k)).collect();
        let n = nodes.len();
        let want = 400usize.min(n);
        let stride = (n / want.max(1)).max(1);
        let mut i = n.saturating_sub(1);
        let mut done = 0;
        while done < want {
            let (init_cap, ops) = path_of(&nodes, i as u32);
            let r = guarded(|| {
                let mut inf = Inflights::new(init_cap);
                let mut m = Model::new(init_cap);
                for &op in &ops {
                    let before = m.clone();
                    let was_alloc = inf.buffer_capacity() > 0;
                    apply_impl(&mut inf, op);
                    m.apply(op);
                    if compare(&inf, &before, &m, op, was_alloc).is_some() {
                        return None;
                    }
                }
                Some(pair_key(&inf, &m))
            });
            let ok = matches!(&r, Ok(Some(k)) if Some(k) == by_idx.get(&(i as u32)).copied());
            if !ok && violations.len() < MAX_KINDS && !violations.iter().any(|(k, _, _)| k == "replay-diverged") {
                violations.push((
                    "replay-diverged".into(),
                    format!("re-executing the recorded path of pair #{} gave {:?}", i, r),
                    ops_json(init_cap, &ops),
                ));
            }
            validated += 1;
            done += 1;
            if i < stride {
                break;
            }
            i -= stride;
        }
    }

    // samples: the deepest path, one wrapped path, one mid path
    let mut samples = vec![];
    if !nodes.is_empty() {
        for &i in &[nodes.len() - 1, nodes.len() / 2, nodes.len() / 7] {
            let (init_cap, ops) = path_of(&nodes, i as u32);
            samples.push(json!({"engine": ENGINE, "sample": ops_json(init_cap, &ops), "final_model_window": nodes[i].model.win}));
        }
    }

    let must = [
        counters.wraps,
        counters.grow_wrapped,
        counters.shrink_nonempty,
        counters.drain_pending,
        counters.adds,
        counters.free_to_partial,
        counters.full_seen,
    ];
    let nonvacuous = must.iter().all(|x| *x > 0) || !violations.is_empty();
    let mut stats = counters.json();
    stats["add_bound"] = json!(add_bound);
    stats["max_depth"] = json!(max_depth);
    stats["initial_capacities"] = json!((1..=max_cap).collect::<Vec<_>>());
    stats["set_cap_values"] = json!((0..=max_cap).collect::<Vec<_>>());
    let exhaustive = cap_hit.is_none() && violations.is_empty();
    if !violations.is_empty() && cap_hit.is_none() {
        cap_hit = Some("stopped at the first violations".into());
    }
    CompResult {
        engine: ENGINE.into(),
        states: nodes.len() as u64,
        transitions,
        validated,
        exhaustive,
        cap_hit,
        samples,
        stats,
        violations,
        nonvacuous,
        wall_s: t0.elapsed().as_secs_f64(),
    }
}

/// Re-executes one recorded operation sequence against the model. 1 if a disagreement (or an
/// undocumented panic) reproduces, 0 if the sequence runs clean, 2 on malformed input.
pub fn replay(j: &Value) -> i32 {
    let ops_v = if j.get("ops").is_some_and(|o| o.is_object()) { &j["ops"] } else { j };
    let Some(init_cap) = ops_v.get("init_cap").and_then(|x| x.as_u64()) else {
        eprintln!("inflights replay: missing init_cap");
        return 2;
    };
    let Some(arr) = ops_v.get("ops").and_then(|x| x.as_array()) else {
        eprintln!("inflights replay: missing ops");
        return 2;
    };
    let mut ops = vec![];
    for o in arr {
        match Op::from_json(o) {
            Some(x) => ops.push(x),
            None => {
                eprintln!("inflights replay: bad op {}", o);
                return 2;
            }
        }
    }
    let prop = j.get("property").and_then(|x| x.as_str()).unwrap_or("C18");
    let mut outcomes = vec![];
    for round in 0..2 {
        let mut inf = Inflights::new(init_cap as usize);
        let mut m = Model::new(init_cap as usize);
        let mut outcome: Option<(usize, String, String)> = None;
        if round == 0 {
            println!("new({})", init_cap);
        }
        for (k, &op) in ops.iter().enumerate() {
            if let Op::Add(_) = op {
                if m.full() {
                    eprintln!("inflights replay: step {} adds into a full window (documented panic) — not a legal sequence", k);
                    return 2;
                }
            }
            let before = m.clone();
            let was_alloc = inf.buffer_capacity() > 0;
            let r = guarded(|| {
                apply_impl(&mut inf, op);
            });
            if let Err((msg, loc)) = r {
                outcome = Some((k, panic_kind(op), format!("{:?} panicked: {} @ {}", op, msg, loc)));
                break;
            }
            m.apply(op);
            if round == 0 {
                println!("  {:?} -> impl {:?} full={} | model window={:?} cap={} pending={:?} full={}", op, inf.verif_view(), inf.full(), m.win, m.cap, m.pending, m.full());
            }
            if let Some((kind, detail)) = compare(&inf, &before, &m, op, was_alloc) {
                outcome = Some((k, kind, detail));
                break;
            }
        }
        outcomes.push(outcome);
    }
    if outcomes[0] != outcomes[1] {
        println!("MACHINERY ERROR: two replays of the same sequence diverged");
        return 2;
    }
    match &outcomes[0] {
        Some((k, kind, detail)) => {
            println!("violation at step {}: {} [{}] {}", k, prop, kind, detail);
            println!("VIOLATION property={} engine={} kind={}", prop, ENGINE, kind);
            1
        }
        None => {
            println!("no violation of {} on this replay", prop);
            0
        }
    }
}
