//! C19 — MemStorage honours the Storage contract.
//!
//! Joint breadth-first search over pairs *(real `raft::storage::MemStorage`, reference
//! model)* under every operation of a small alphabet, until a fixpoint under value
//! bounds.  `MemStorage` is `Arc<RwLock<MemStorageCore>>` (cloning aliases the core), so
//! every successor is built on a *fresh* `MemStorage` by replaying the operation history
//! of its parent from `MemStorage::new()` and then applying the one new operation.  The
//! same histories are applied to `crate::sim::Store` (SimStorage, the storage used by the
//! cluster explorer) and the read-side of the same oracle is evaluated on it; a
//! disagreement there is a machinery error, not a property violation.
//!
//! Reference model: a snapshot point `(index, term)`, the entry just before the first
//! readable one (`prev`, equal to the snapshot point unless the log was compacted past
//! it), a contiguous vector of entry terms starting at `prev.index + 1`, the stored hard
//! state and the stored configuration.
//!
//! What the oracle demands (and nothing more):
//! * `first_index`/`last_index` equal the model's;
//! * `term(i)`: stored entries answer their term; `i > last` answers `Unavailable`; the
//!   snapshot point answers the snapshot term whenever it is `first_index-1`; any other
//!   index below `first_index` answers `Compacted` — except that an implementation may
//!   also answer the *true* term where the model still knows it (the index just before
//!   `first_index` after a compaction, where the trait doc even says the term "is
//!   retained", and a snapshot point that was compacted past).  Wrong data is never
//!   accepted.  Which of the two permitted answers was given is counted in the stats.
//! * `entries(lo,hi,limit)` for `lo < hi <= last+1`: `Compacted` iff `lo < first`, else
//!   the maximal prefix of the range that fits the limit, never empty;
//! * `snapshot(req)` for `req <= commit` (when the commit index is still present in the
//!   log or is the snapshot point): index == commit >= req, term == term of that index,
//!   conf state == the stored one;
//! * `initial_state()` returns the stored hard state and conf state;
//! * mutators within their documented preconditions do not panic, return `Ok` — except
//!   `apply_snapshot` below `first_index`, which must answer `SnapshotOutOfDate` and
//!   change nothing;
//! * separate sub-alphabet: empty in-range reads `entries(lo,lo)` answer `Ok([])`.
//!   On an empty log MemStorage panics there (design-time observation O3); this is
//!   reported under its own kind and never stops or masks the rest of the search.

use crate::check::CompResult;
use crate::sim::{Store, WriteOp};
use crate::util::{guarded, W};
use protobuf::Message as PbMessage;
use raft::eraftpb::{ConfState, Entry, HardState, Snapshot};
use raft::storage::MemStorage;
use raft::{Error, GetEntriesContext, Storage, StorageError};
use serde_json::{json, Value};
use std::collections::{BTreeMap, HashMap, HashSet};
use std::sync::atomic::{AtomicBool, AtomicUsize, Ordering};
use std::time::Instant;

const MAXE: usize = 10;
pub const O3_KIND: &str = "empty range read panics on empty log";
const SIM_PREFIX: &str = "simstorage disagreement: ";

// ------------------------------------------------------------------------------------
// values

fn cs_of(k: u8) -> ConfState {
    let mut cs = ConfState::default();
    match k {
        0 => {}
        1 => {
            cs.set_voters(vec![1, 2]);
            cs.set_learners(vec![3]);
        }
        _ => {
            cs.set_voters(vec![1, 2, 3]);
        }
    }
    cs
}

/// The full entry is a function of (index, term) so the model only stores terms; the
/// payload length varies so that entries have different encoded sizes.
fn mk_entry(index: u64, term: u64) -> Entry {
    let mut e = Entry::default();
    e.index = index;
    e.term = term;
    let len = ((index * 2 + term) % 4) as usize;
    e.data = vec![0xA0u8 + term as u8; len].into();
    e
}

fn mk_snap(index: u64, term: u64, cs: u8) -> Snapshot {
    let mut s = Snapshot::default();
    let m = s.mut_metadata();
    m.index = index;
    m.term = term;
    m.set_conf_state(cs_of(cs));
    s
}

fn mk_hs(term: u64, vote: u64, commit: u64) -> HardState {
    let mut hs = HardState::default();
    hs.term = term;
    hs.vote = vote;
    hs.commit = commit;
    hs
}

// ------------------------------------------------------------------------------------
// operations

#[derive(Clone, Copy, PartialEq, Eq, Debug)]
enum Op {
    Append { start: u8, n: u8, t: [u8; 2] },
    Compact(u8),
    Snap { i: u8, t: u8, cs: u8 },
    SetHs { term: u8, vote: u8, commit: u8 },
    CommitTo(u8),
    SetCs(u8),
}

impl Op {
    fn name(&self) -> &'static str {
        match self {
            Op::Append { .. } => "append",
            Op::Compact(_) => "compact",
            Op::Snap { .. } => "apply_snapshot",
            Op::SetHs { .. } => "set_hardstate",
            Op::CommitTo(_) => "commit_to",
            Op::SetCs(_) => "set_conf_state",
        }
    }

    fn entries(&self) -> Vec<Entry> {
        match *self {
            Op::Append { start, n, t } => (0..n as usize)
                .map(|k| mk_entry(start as u64 + k as u64, t[k] as u64))
                .collect(),
            _ => vec![],
        }
    }

    fn to_json(&self) -> Value {
        match *self {
            Op::Append { start, n, t } => {
                let ents: Vec<Value> = (0..n as usize)
                    .map(|k| json!([start as u64 + k as u64, t[k]]))
                    .collect();
                json!({"op": "append", "entries": ents})
            }
            Op::Compact(c) => json!({"op": "compact", "index": c}),
            Op::Snap { i, t, cs } => {
                json!({"op": "apply_snapshot", "index": i, "term": t, "conf_state": cs})
            }
            Op::SetHs { term, vote, commit } => {
                json!({"op": "set_hardstate", "term": term, "vote": vote, "commit": commit})
            }
            Op::CommitTo(i) => json!({"op": "commit_to", "index": i}),
            Op::SetCs(cs) => json!({"op": "set_conf_state", "conf_state": cs}),
        }
    }

    fn from_json(j: &Value) -> Option<Op> {
        let u = |k: &str| j.get(k).and_then(|v| v.as_u64()).filter(|v| *v < 250).map(|v| v as u8);
        match j.get("op")?.as_str()? {
            "append" => {
                let a = j.get("entries")?.as_array()?;
                if a.is_empty() || a.len() > 2 {
                    return None;
                }
                let mut t = [0u8; 2];
                let start = a[0].get(0)?.as_u64()?;
                for (k, e) in a.iter().enumerate() {
                    if e.get(0)?.as_u64()? != start + k as u64 {
                        return None;
                    }
                    t[k] = e.get(1)?.as_u64().filter(|v| *v < 250)? as u8;
                }
                if start >= 250 {
                    return None;
                }
                Some(Op::Append {
                    start: start as u8,
                    n: a.len() as u8,
                    t,
                })
            }
            "compact" => Some(Op::Compact(u("index")?)),
            "apply_snapshot" => Some(Op::Snap {
                i: u("index")?,
                t: u("term")?,
                cs: u("conf_state")?,
            }),
            "set_hardstate" => Some(Op::SetHs {
                term: u("term")?,
                vote: u("vote")?,
                commit: u("commit")?,
            }),
            "commit_to" => Some(Op::CommitTo(u("index")?)),
            "set_conf_state" => Some(Op::SetCs(u("conf_state")?)),
            _ => None,
        }
    }
}

fn hist_json(h: &[Op]) -> Value {
    json!({
        "init": "MemStorage::new()",
        "history": h.iter().map(|o| o.to_json()).collect::<Vec<_>>(),
    })
}

// ------------------------------------------------------------------------------------
// reference model

#[derive(Clone, Copy, PartialEq, Eq, Hash, Debug)]
struct Model {
    /// snapshot point
    snap_i: u8,
    snap_t: u8,
    /// the entry just before the first readable one; == snapshot point unless compacted past it
    prev_i: u8,
    prev_t: u8,
    /// terms of the readable entries prev_i+1 ..= prev_i+n
    n: u8,
    ents: [u8; MAXE],
    hs_term: u8,
    hs_vote: u8,
    hs_commit: u8,
    cs: u8,
}

#[derive(Clone, Copy, PartialEq, Eq, Debug)]
enum Expect {
    Ok,
    OutOfDate,
}

impl Model {
    fn new() -> Model {
        Model {
            snap_i: 0,
            snap_t: 0,
            prev_i: 0,
            prev_t: 0,
            n: 0,
            ents: [0; MAXE],
            hs_term: 0,
            hs_vote: 0,
            hs_commit: 0,
            cs: 0,
        }
    }
    fn first(&self) -> u64 {
        self.prev_i as u64 + 1
    }
    fn last(&self) -> u64 {
        self.prev_i as u64 + self.n as u64
    }
    fn compacted_past_snapshot(&self) -> bool {
        self.prev_i != self.snap_i
    }
    /// term of a readable entry
    fn term_at(&self, i: u64) -> Option<u64> {
        if i >= self.first() && i <= self.last() {
            Some(self.ents[(i - self.first()) as usize] as u64)
        } else {
            None
        }
    }
    /// term of the entry before `start`, for first <= start <= last+1
    fn term_before(&self, start: u64) -> u64 {
        if start == self.first() {
            self.prev_t as u64
        } else {
            self.term_at(start - 1).unwrap()
        }
    }
    /// term of the stored commit index if that index is still known to the storage
    /// (it is the snapshot point, or a readable entry)
    fn commit_term(&self) -> Option<u64> {
        let c = self.hs_commit as u64;
        if c == self.snap_i as u64 {
            Some(self.snap_t as u64)
        } else {
            self.term_at(c)
        }
    }

    /// Is `op` inside the documented preconditions (and the alphabet's shape)?
    fn legal(&self, op: &Op) -> bool {
        let (first, last) = (self.first(), self.last());
        match *op {
            Op::Append { start, n, t } => {
                let start = start as u64;
                if n == 0 || n > 2 || start < first || start > last + 1 {
                    return false;
                }
                if (start - first) as usize + n as usize > MAXE {
                    return false;
                }
                let mut pt = self.term_before(start).max(1);
                for k in 0..n as usize {
                    if (t[k] as u64) < pt {
                        return false;
                    }
                    pt = t[k] as u64;
                }
                true
            }
            // compact(last+1) is admitted by the documented panic bound but the doc makes
            // compaction beyond applied the application's responsibility: probe only
            Op::Compact(c) => (c as u64) <= last,
            Op::Snap { cs, .. } => cs <= 2,
            Op::SetHs { commit, .. } => {
                let c = commit as u64;
                (c == self.snap_i as u64 && !self.compacted_past_snapshot())
                    || self.term_at(c).is_some()
            }
            Op::CommitTo(i) => self.term_at(i as u64).is_some(),
            Op::SetCs(cs) => cs <= 2,
        }
    }

    fn apply(&mut self, op: &Op) -> Expect {
        match *op {
            Op::Append { start, n, t } => {
                let keep = (start as u64 - self.first()) as usize;
                for k in 0..n as usize {
                    self.ents[keep + k] = t[k];
                }
                for k in keep + n as usize..MAXE {
                    self.ents[k] = 0;
                }
                self.n = (keep + n as usize) as u8;
                Expect::Ok
            }
            Op::Compact(c) => {
                let c = c as u64;
                if c > self.first() {
                    let drop = (c - self.first()) as usize;
                    let pt = self.ents[drop - 1];
                    let old_n = self.n as usize;
                    let mut ne = [0u8; MAXE];
                    ne[..old_n - drop].copy_from_slice(&self.ents[drop..old_n]);
                    self.ents = ne;
                    self.n = (old_n - drop) as u8;
                    self.prev_i = (c - 1) as u8;
                    self.prev_t = pt;
                }
                Expect::Ok
            }
            Op::Snap { i, t, cs } => {
                if (i as u64) < self.first() {
                    return Expect::OutOfDate;
                }
                self.snap_i = i;
                self.snap_t = t;
                self.prev_i = i;
                self.prev_t = t;
                self.n = 0;
                self.ents = [0; MAXE];
                self.hs_term = self.hs_term.max(t);
                self.hs_commit = i;
                self.cs = cs;
                Expect::Ok
            }
            Op::SetHs { term, vote, commit } => {
                self.hs_term = term;
                self.hs_vote = vote;
                self.hs_commit = commit;
                Expect::Ok
            }
            Op::CommitTo(i) => {
                self.hs_commit = i;
                self.hs_term = self.term_at(i as u64).unwrap() as u8;
                Expect::Ok
            }
            Op::SetCs(cs) => {
                self.cs = cs;
                Expect::Ok
            }
        }
    }

    fn write(&self, w: &mut W) {
        w.u8(self.snap_i);
        w.u8(self.snap_t);
        w.u8(self.prev_i);
        w.u8(self.prev_t);
        w.u8(self.n);
        for k in 0..self.n as usize {
            w.u8(self.ents[k]);
        }
        w.u8(self.hs_term);
        w.u8(self.hs_vote);
        w.u8(self.hs_commit);
        w.u8(self.cs);
    }

    fn describe(&self) -> String {
        let ents: Vec<String> = (0..self.n as usize)
            .map(|k| format!("{}:t{}", self.first() + k as u64, self.ents[k]))
            .collect();
        format!(
            "model{{snapshot point ({},t{}), before-first ({},t{}), entries [{}], hs(term {}, vote {}, commit {}), cs#{}}}",
            self.snap_i,
            self.snap_t,
            self.prev_i,
            self.prev_t,
            ents.join(" "),
            self.hs_term,
            self.hs_vote,
            self.hs_commit,
            self.cs
        )
    }
}

// ------------------------------------------------------------------------------------
// bounds and alphabet

#[derive(Clone, Debug)]
struct Bounds {
    max_index: u64,
    max_term: u64,
    hs_terms: Vec<u8>,
    votes: Vec<u8>,
    max_states: usize,
}

fn bounds_for(tier: &str) -> Bounds {
    let mut b = if tier == "thorough" {
        Bounds {
            max_index: 8,
            max_term: 4,
            hs_terms: vec![0, 1, 2, 3, 4],
            votes: vec![0, 1],
            max_states: 40_000_000,
        }
    } else {
        Bounds {
            max_index: 6,
            max_term: 3,
            hs_terms: vec![0, 1, 2, 3],
            votes: vec![0, 1],
            max_states: 10_000_000,
        }
    };
    if let Some(v) = std::env::var("RMC_C19_MAX_INDEX").ok().and_then(|v| v.parse::<u64>().ok()) {
        b.max_index = v.clamp(1, MAXE as u64 - 1);
    }
    if let Some(v) = std::env::var("RMC_C19_MAX_TERM").ok().and_then(|v| v.parse::<u64>().ok()) {
        b.max_term = v.clamp(1, 9);
        b.hs_terms = (0..=b.max_term as u8).collect();
    }
    b
}

fn alphabet(m: &Model, b: &Bounds, out: &mut Vec<Op>) {
    out.clear();
    let (first, last) = (m.first(), m.last());
    // append: every legal start (first ..= last+1), 1-2 entries, terms non-decreasing and
    // not below the term before the start
    for start in first..=last + 1 {
        if start > b.max_index {
            break;
        }
        let tb = m.term_before(start).max(1);
        for t1 in tb..=b.max_term {
            out.push(Op::Append {
                start: start as u8,
                n: 1,
                t: [t1 as u8, 0],
            });
            if start < b.max_index {
                for t2 in t1..=b.max_term {
                    out.push(Op::Append {
                        start: start as u8,
                        n: 2,
                        t: [t1 as u8, t2 as u8],
                    });
                }
            }
        }
    }
    for c in 0..=last {
        out.push(Op::Compact(c as u8));
    }
    for i in 0..=b.max_index {
        if i < first {
            // out of date: the answer does not depend on term / conf state
            out.push(Op::Snap { i: i as u8, t: 1, cs: 0 });
            out.push(Op::Snap {
                i: i as u8,
                t: b.max_term as u8,
                cs: 1,
            });
        } else {
            for t in 1..=b.max_term {
                for cs in 0..2u8 {
                    out.push(Op::Snap {
                        i: i as u8,
                        t: t as u8,
                        cs,
                    });
                }
            }
        }
    }
    let mut commits: Vec<u64> = vec![];
    if !m.compacted_past_snapshot() {
        commits.push(m.snap_i as u64);
    }
    commits.extend(first..=last);
    for c in &commits {
        for term in &b.hs_terms {
            for vote in &b.votes {
                out.push(Op::SetHs {
                    term: *term,
                    vote: *vote,
                    commit: *c as u8,
                });
            }
        }
    }
    for i in first..=last {
        out.push(Op::CommitTo(i as u8));
    }
    for cs in 0..2u8 {
        out.push(Op::SetCs(cs));
    }
}

// ------------------------------------------------------------------------------------
// counters

macro_rules! counters {
    ($($id:ident),* $(,)?) => {
        #[allow(non_camel_case_types, dead_code)]
        #[derive(Clone, Copy)]
        enum C { $($id),*, _N }
        const CNAMES: &[&str] = &[$(stringify!($id)),*];
    };
}

counters!(
    op_append_at_tail,
    op_append_overwriting,
    op_append_overwriting_and_shortening,
    op_append_after_compaction,
    op_append_after_snapshot,
    op_compact_noop,
    op_compact_removed_entries,
    op_compact_beyond_commit,
    op_snapshot_out_of_date,
    op_snapshot_inside_log,
    op_snapshot_inside_log_conflicting_term,
    op_snapshot_at_last,
    op_snapshot_beyond_log,
    op_snapshot_lowered_commit,
    op_set_hardstate,
    op_commit_to,
    op_set_conf_state,
    err_snapshot_out_of_date,
    err_term_compacted,
    err_term_unavailable,
    err_entries_compacted,
    term_ok_stored_entry,
    term_ok_snapshot_point,
    term_before_first_after_compaction_answered_compacted,
    term_before_first_after_compaction_answered_term,
    term_stale_snapshot_point_answered_term,
    term_stale_snapshot_point_answered_compacted,
    entries_reads_ok,
    entries_limited_reads_truncated,
    entries_at_least_one_rule_applied,
    snapshot_reads_checked,
    snapshot_states_skipped_commit_index_not_stored,
    initial_state_checked,
    empty_range_reads_ok,
    empty_range_reads_panicked_on_empty_log,
    sim_states_checked,
    sim_out_of_date_snapshot_skipped,
    sim_term_before_first_after_compaction_answered_term,
    sim_term_before_first_after_compaction_answered_compacted,
    sim_term_stale_snapshot_point_answered_term,
    sim_term_stale_snapshot_point_answered_compacted,
    probe_compact_last_plus_1,
    probe_compact_last_plus_1_last_index_regressed,
    probe_compact_last_plus_1_first_index_regressed,
    probe_compact_last_plus_1_panicked,
    probe_snapshot_above_commit,
    probe_snapshot_above_commit_index_bumped_term_of_commit,
    probe_snapshot_above_commit_other,
);

#[derive(Clone)]
struct Stats {
    c: Vec<u64>,
    /// (depth, text) shortest example per probe
    examples: BTreeMap<&'static str, (usize, String)>,
}

impl Stats {
    fn new() -> Stats {
        Stats {
            c: vec![0; C::_N as usize],
            examples: BTreeMap::new(),
        }
    }
    #[inline]
    fn inc(&mut self, k: C) {
        self.c[k as usize] += 1;
    }
    fn get(&self, k: C) -> u64 {
        self.c[k as usize]
    }
    fn example(&mut self, name: &'static str, depth: usize, f: impl FnOnce() -> String) {
        match self.examples.get(name) {
            Some((d, _)) if *d <= depth => {}
            _ => {
                self.examples.insert(name, (depth, f()));
            }
        }
    }
    fn merge(&mut self, o: &Stats) {
        for k in 0..self.c.len() {
            self.c[k] += o.c[k];
        }
        for (n, (d, s)) in &o.examples {
            match self.examples.get(n) {
                Some((d0, s0)) if (*d0, s0) <= (*d, s) => {}
                _ => {
                    self.examples.insert(n, (*d, s.clone()));
                }
            }
        }
    }
}

// ------------------------------------------------------------------------------------
// driving the implementations

fn apply_mem(s: &MemStorage, op: &Op) -> Result<(), Error> {
    let mut c = s.wl();
    match *op {
        Op::Append { .. } => c.append(&op.entries()),
        Op::Compact(i) => c.compact(i as u64),
        Op::Snap { i, t, cs } => c.apply_snapshot(mk_snap(i as u64, t as u64, cs)),
        Op::SetHs { term, vote, commit } => {
            c.set_hardstate(mk_hs(term as u64, vote as u64, commit as u64));
            Ok(())
        }
        Op::CommitTo(i) => c.commit_to(i as u64),
        Op::SetCs(cs) => {
            c.set_conf_state(cs_of(cs));
            Ok(())
        }
    }
}

/// Replays a history on a fresh MemStorage. A panic poisons the lock, so the instance is
/// dropped and the panic is reported with the index of the failing operation.
fn build_mem(hist: &[Op]) -> Result<MemStorage, (usize, String, String)> {
    let s = MemStorage::new();
    for (k, op) in hist.iter().enumerate() {
        match guarded(|| apply_mem(&s, op)) {
            Ok(_) => {}
            Err((msg, loc)) => return Err((k, msg, loc)),
        }
    }
    Ok(s)
}

/// `model_before` is the model state the operation is applied in.
fn apply_sim(s: &mut Store, op: &Op, model_before: &Model, after: &Model, st: &mut Stats) {
    match *op {
        Op::Append { .. } => s.apply_op(&WriteOp::Entries(op.entries())),
        Op::Compact(c) => {
            // SimStorage's Compact(idx) makes idx the dummy entry: MemStorage's compact(idx+1)
            if c > 0 {
                s.apply_op(&WriteOp::Compact(c as u64 - 1));
            }
        }
        Op::Snap { i, t, cs } => {
            if (i as u64) < model_before.first() {
                // SimStorage has no out-of-date answer; the simulated application never
                // applies a snapshot at or below its own
                st.inc(C::sim_out_of_date_snapshot_skipped);
            } else {
                s.apply_op(&WriteOp::Snapshot(mk_snap(i as u64, t as u64, cs)));
            }
        }
        Op::SetHs { .. } | Op::CommitTo(_) => {
            s.apply_op(&WriteOp::Hs(mk_hs(
                after.hs_term as u64,
                after.hs_vote as u64,
                after.hs_commit as u64,
            )));
        }
        Op::SetCs(_) => {}
    }
}

fn build_sim(hist: &[Op]) -> Result<Store, (String, String)> {
    guarded(|| {
        let mut st = Stats::new();
        let mut s = Store::new(cs_of(0));
        let mut m = Model::new();
        for op in hist {
            let before = m;
            m.apply(op);
            apply_sim(&mut s, op, &before, &m, &mut st);
        }
        s
    })
}

#[derive(Debug, PartialEq)]
enum TermAns {
    Ok(u64),
    Compacted,
    Unavailable,
    Other(String),
}

fn term_ans(r: &Result<u64, Error>) -> TermAns {
    match r {
        Ok(v) => TermAns::Ok(*v),
        Err(Error::Store(StorageError::Compacted)) => TermAns::Compacted,
        Err(Error::Store(StorageError::Unavailable)) => TermAns::Unavailable,
        Err(e) => TermAns::Other(format!("{:?}", e)),
    }
}

/// Canonical digest of the observable state of an implementation (used for the key).
fn digest<S: Storage>(s: &S, w: &mut W, b: &Bounds, with_state: bool) {
    let r = guarded(|| {
        let mut w = W::default();
        let first = s.first_index().unwrap_or(u64::MAX);
        let last = s.last_index().unwrap_or(u64::MAX);
        w.u64(first);
        w.u64(last);
        for i in 0..=b.max_index + 1 {
            match term_ans(&s.term(i)) {
                TermAns::Ok(v) => {
                    w.u8(0);
                    w.u64(v);
                }
                TermAns::Compacted => w.u8(1),
                TermAns::Unavailable => w.u8(2),
                TermAns::Other(_) => w.u8(3),
            }
        }
        if first <= last && last <= b.max_index + 2 {
            match s.entries(first, last + 1, None, GetEntriesContext::empty(false)) {
                Ok(v) => {
                    w.u64(v.len() as u64);
                    for e in &v {
                        w.entry(e);
                    }
                }
                Err(_) => w.u8(0xfd),
            }
        }
        if with_state {
            match s.initial_state() {
                Ok(rs) => {
                    w.hs(&rs.hard_state);
                    w.cs(&rs.conf_state);
                }
                Err(_) => w.u8(0xfc),
            }
        }
        w
    });
    match r {
        Ok(x) => w.0.extend_from_slice(&x.0),
        Err(_) => w.u8(0xee),
    }
}

fn state_key(mem: &MemStorage, sim: &Store, m: &Model, b: &Bounds) -> u128 {
    let mut w = W::default();
    m.write(&mut w);
    digest(mem, &mut w, b, true);
    w.u8(0x55);
    digest(sim, &mut w, b, false);
    w.key()
}

// ------------------------------------------------------------------------------------
// the oracle on one state

fn limited_len(sz: &[u64], lim: Option<u64>) -> usize {
    match lim {
        None => sz.len(),
        Some(l) => {
            let mut k = 1;
            let mut sum = sz[0];
            while k < sz.len() && sum.saturating_add(sz[k]) <= l {
                sum += sz[k];
                k += 1;
            }
            k
        }
    }
}

fn ents_str(v: &[Entry]) -> String {
    let s: Vec<String> = v
        .iter()
        .map(|e| format!("({},t{},{}B)", e.index, e.term, e.data.len()))
        .collect();
    format!("[{}]", s.join(" "))
}

/// Evaluates every observer of `mk()` against the model. `is_mem` selects the full oracle
/// (MemStorage) or the restricted read-side comparison (SimStorage).
fn check_state<S: Storage>(
    mk: &dyn Fn() -> Option<S>,
    m: &Model,
    is_mem: bool,
    depth: usize,
    st: &mut Stats,
    out: &mut Vec<(String, String)>,
) {
    if !is_mem {
        // read-side comparison only; keep MemStorage's non-vacuity counters unpolluted
        let mut tmp = Stats::new();
        check_state_inner(mk, m, false, depth, &mut tmp, out);
        st.inc(C::sim_states_checked);
        st.c[C::sim_term_before_first_after_compaction_answered_term as usize] +=
            tmp.get(C::term_before_first_after_compaction_answered_term);
        st.c[C::sim_term_before_first_after_compaction_answered_compacted as usize] +=
            tmp.get(C::term_before_first_after_compaction_answered_compacted);
        st.c[C::sim_term_stale_snapshot_point_answered_term as usize] +=
            tmp.get(C::term_stale_snapshot_point_answered_term);
        st.c[C::sim_term_stale_snapshot_point_answered_compacted as usize] +=
            tmp.get(C::term_stale_snapshot_point_answered_compacted);
        return;
    }
    check_state_inner(mk, m, true, depth, st, out);
}

fn check_state_inner<S: Storage>(
    mk: &dyn Fn() -> Option<S>,
    m: &Model,
    is_mem: bool,
    depth: usize,
    st: &mut Stats,
    out: &mut Vec<(String, String)>,
) {
    let Some(mut s) = mk() else {
        out.push((
            "machinery: cannot rebuild the state".into(),
            "replaying the history failed".into(),
        ));
        return;
    };
    let (first, last) = (m.first(), m.last());
    let ctx = || GetEntriesContext::empty(false);

    // runs one call under catch_unwind; a panic is a violation and costs a fresh instance
    macro_rules! call {
        ($name:expr, $desc:expr, $e:expr) => {{
            let r = guarded(|| $e);
            match r {
                Ok(r) => Some(r),
                Err((msg, loc)) => {
                    out.push((
                        format!("panic in {}", $name),
                        format!("{} panicked: {} @ {}", $desc, msg, loc),
                    ));
                    match mk() {
                        Some(x) => s = x,
                        None => return,
                    }
                    None
                }
            }
        }};
    }

    // ---- first / last index
    if let Some(r) = call!("first_index", "first_index()", s.first_index()) {
        if !matches!(r, Ok(v) if v == first) {
            out.push((
                "first_index disagrees with the model".into(),
                format!("first_index() = {:?}, model says {}", r, first),
            ));
        }
    }
    if let Some(r) = call!("last_index", "last_index()", s.last_index()) {
        if !matches!(r, Ok(v) if v == last) {
            out.push((
                "last_index disagrees with the model".into(),
                format!("last_index() = {:?}, model says {}", r, last),
            ));
        }
    }

    // ---- term(i) for every i in [0, last+1]
    for i in 0..=last + 1 {
        let Some(r) = call!("term", format!("term({})", i), s.term(i)) else {
            break;
        };
        let a = term_ans(&r);
        if i > last {
            if a == TermAns::Unavailable {
                st.inc(C::err_term_unavailable);
            } else {
                out.push((
                    "term: index above last_index not answered with Unavailable".into(),
                    format!("term({}) = {:?} with last_index {}", i, a, last),
                ));
            }
        } else if i >= first {
            let t = m.term_at(i).unwrap();
            if a == TermAns::Ok(t) {
                st.inc(C::term_ok_stored_entry);
            } else {
                out.push((
                    "term: wrong answer for a stored entry".into(),
                    format!("term({}) = {:?}, the entry stored there has term {}", i, a, t),
                ));
            }
        } else if i == m.prev_i as u64 && !m.compacted_past_snapshot() {
            if a == TermAns::Ok(m.snap_t as u64) {
                st.inc(C::term_ok_snapshot_point);
            } else {
                out.push((
                    "term: snapshot index not answered with the snapshot term".into(),
                    format!(
                        "term({}) = {:?}; {} is the snapshot point (= first_index-1) with term {}",
                        i, a, i, m.snap_t
                    ),
                ));
            }
        } else if i == m.prev_i as u64 {
            // compacted past the snapshot point: the trait doc says the term of
            // first_index-1 "is retained"; the property only forbids wrong data
            if a == TermAns::Ok(m.prev_t as u64) {
                st.inc(C::term_before_first_after_compaction_answered_term);
            } else if a == TermAns::Compacted {
                st.inc(C::term_before_first_after_compaction_answered_compacted);
                st.inc(C::err_term_compacted);
            } else {
                out.push((
                    "term: wrong answer for the index before first_index".into(),
                    format!(
                        "term({}) = {:?}; the compacted entry there had term {} (permitted: that term or Compacted)",
                        i, a, m.prev_t
                    ),
                ));
            }
        } else if i == m.snap_i as u64 {
            if a == TermAns::Ok(m.snap_t as u64) {
                st.inc(C::term_stale_snapshot_point_answered_term);
            } else if a == TermAns::Compacted {
                st.inc(C::term_stale_snapshot_point_answered_compacted);
                st.inc(C::err_term_compacted);
            } else {
                out.push((
                    "term: compacted index not answered with Compacted".into(),
                    format!(
                        "term({}) = {:?}; {} is a snapshot point of term {} that was compacted past (permitted: that term or Compacted)",
                        i, a, i, m.snap_t
                    ),
                ));
            }
        } else if a == TermAns::Compacted {
            st.inc(C::err_term_compacted);
        } else {
            out.push((
                "term: compacted index not answered with Compacted".into(),
                format!("term({}) = {:?} with first_index {}", i, a, first),
            ));
        }
    }

    // ---- entries(lo, hi, limit) for lo < hi <= last+1
    let full: Vec<Entry> = (first..=last).map(|i| mk_entry(i, m.term_at(i).unwrap())).collect();
    let sz: Vec<u64> = full.iter().map(|e| u64::from(e.compute_size())).collect();
    'ents: for lo in 0..=last {
        for hi in lo + 1..=last + 1 {
            if lo < first {
                for lim in [None, Some(0u64)] {
                    let Some(r) = call!(
                        "entries",
                        format!("entries({}, {}, {:?})", lo, hi, lim),
                        s.entries(lo, hi, lim, ctx())
                    ) else {
                        break 'ents;
                    };
                    match r {
                        Err(Error::Store(StorageError::Compacted)) => st.inc(C::err_entries_compacted),
                        other => out.push((
                            "entries: compacted range not answered with Compacted".into(),
                            format!(
                                "entries({}, {}, {:?}) = {} with first_index {}",
                                lo,
                                hi,
                                lim,
                                match &other {
                                    Ok(v) => format!("Ok({})", ents_str(v)),
                                    Err(e) => format!("Err({:?})", e),
                                },
                                first
                            ),
                        )),
                    }
                }
                continue;
            }
            let a = (lo - first) as usize;
            let z = (hi - first) as usize;
            let range = &full[a..z];
            let rsz = &sz[a..z];
            let one = rsz[0];
            let two = if rsz.len() >= 2 { rsz[0] + rsz[1] } else { rsz[0] };
            let limits = [
                None,
                Some(0u64),
                Some(one),
                Some(two),
                Some(two - 1),
                Some(u64::MAX),
            ];
            for lim in limits {
                let Some(r) = call!(
                    "entries",
                    format!("entries({}, {}, {:?})", lo, hi, lim),
                    s.entries(lo, hi, lim, ctx())
                ) else {
                    break 'ents;
                };
                let want = limited_len(rsz, lim);
                if want < range.len() {
                    st.inc(C::entries_limited_reads_truncated);
                }
                if let Some(l) = lim {
                    if want == 1 && range.len() > 1 && one > l {
                        st.inc(C::entries_at_least_one_rule_applied);
                    }
                }
                match r {
                    Ok(v) if v[..] == range[..want] => st.inc(C::entries_reads_ok),
                    Ok(v) => {
                        let kind = if v.is_empty() {
                            "entries: empty result for a non-empty range"
                        } else if v.len() > range.len() || v[..] != range[..v.len()] {
                            "entries: wrong entries returned"
                        } else if v.len() > want {
                            "entries: size limit exceeded"
                        } else {
                            "entries: fewer entries than the size limit allows"
                        };
                        out.push((
                            kind.into(),
                            format!(
                                "entries({}, {}, {:?}) = {}, expected {} (encoded sizes of the range: {:?})",
                                lo,
                                hi,
                                lim,
                                ents_str(&v),
                                ents_str(&range[..want]),
                                rsz
                            ),
                        ));
                    }
                    Err(e) => out.push((
                        "entries: error for an available range".into(),
                        format!(
                            "entries({}, {}, {:?}) = Err({:?}) with first_index {} last_index {}",
                            lo, hi, lim, e, first, last
                        ),
                    )),
                }
            }
        }
    }

    if !is_mem {
        return;
    }

    // ---- initial_state
    if let Some(r) = call!("initial_state", "initial_state()", s.initial_state()) {
        st.inc(C::initial_state_checked);
        match r {
            Ok(rs) => {
                let hs = mk_hs(m.hs_term as u64, m.hs_vote as u64, m.hs_commit as u64);
                if rs.hard_state != hs {
                    out.push((
                        "initial_state: hard state is not the stored one".into(),
                        format!("initial_state().hard_state = {:?}, model says {:?}", rs.hard_state, hs),
                    ));
                }
                if rs.conf_state != cs_of(m.cs) {
                    out.push((
                        "initial_state: conf state is not the stored one".into(),
                        format!(
                            "initial_state().conf_state = {:?}, model says {:?}",
                            rs.conf_state,
                            cs_of(m.cs)
                        ),
                    ));
                }
            }
            Err(e) => out.push((
                "initial_state: error".into(),
                format!("initial_state() = Err({:?})", e),
            )),
        }
    }

    // ---- snapshot(request_index, to) for request_index <= stored commit
    let commit = m.hs_commit as u64;
    match m.commit_term() {
        None => st.inc(C::snapshot_states_skipped_commit_index_not_stored),
        Some(ct) => {
            for req in 0..=commit {
                let to = 1 + req % 3;
                let Some(r) = call!(
                    "snapshot",
                    format!("snapshot({}, {})", req, to),
                    s.snapshot(req, to)
                ) else {
                    break;
                };
                st.inc(C::snapshot_reads_checked);
                match r {
                    Err(e) => out.push((
                        "snapshot: error instead of a snapshot".into(),
                        format!("snapshot({}, {}) = Err({:?}) with commit {}", req, to, e, commit),
                    )),
                    Ok(sn) => {
                        let md = sn.get_metadata();
                        if md.index < req {
                            out.push((
                                "snapshot: index below the requested one".into(),
                                format!("snapshot({}, {}) has index {}", req, to, md.index),
                            ));
                        }
                        if md.index != commit {
                            out.push((
                                "snapshot: index is not the stored commit index".into(),
                                format!(
                                    "snapshot({}, {}) has index {}, stored commit is {}",
                                    req, to, md.index, commit
                                ),
                            ));
                        } else if md.term != ct {
                            out.push((
                                "snapshot: term is not the term of its index".into(),
                                format!(
                                    "snapshot({}, {}) has (index {}, term {}), index {} has term {}",
                                    req, to, md.index, md.term, commit, ct
                                ),
                            ));
                        }
                        if *md.get_conf_state() != cs_of(m.cs) {
                            out.push((
                                "snapshot: conf state is not the stored one".into(),
                                format!(
                                    "snapshot({}, {}) carries {:?}, stored conf state is {:?}",
                                    req,
                                    to,
                                    md.get_conf_state(),
                                    cs_of(m.cs)
                                ),
                            ));
                        }
                    }
                }
            }
            // informational probe (O3c): a request above the commit index
            let req = commit + 1;
            if let Ok(r) = guarded(|| s.snapshot(req, 1)) {
                st.inc(C::probe_snapshot_above_commit);
                match r {
                    Ok(sn) if sn.get_metadata().index == req && sn.get_metadata().term == ct => {
                        st.inc(C::probe_snapshot_above_commit_index_bumped_term_of_commit);
                        let true_t = m.term_at(req);
                        let name = if true_t.is_some() && true_t != Some(ct) {
                            "probe_snapshot_above_commit_term_differs"
                        } else {
                            "probe_snapshot_above_commit"
                        };
                        st.example(name, depth, || {
                            format!(
                                "commit {} (term {}): snapshot({}, 1) = Ok(index {}, term {}); the log's term at {} is {:?}",
                                commit, ct, req, req, ct, req, true_t
                            )
                        });
                    }
                    _ => st.inc(C::probe_snapshot_above_commit_other),
                }
            } else {
                st.inc(C::probe_snapshot_above_commit_other);
                match mk() {
                    Some(x) => s = x,
                    None => return,
                }
            }
        }
    }

    // ---- separate sub-alphabet: empty in-range reads entries(lo, lo)
    for lo in first..=last + 1 {
        for lim in [None, Some(0u64)] {
            match guarded(|| s.entries(lo, lo, lim, ctx())) {
                Ok(Ok(v)) if v.is_empty() => st.inc(C::empty_range_reads_ok),
                Ok(r) => out.push((
                    "empty range read: wrong answer".into(),
                    format!(
                        "entries({}, {}, {:?}) = {} with first_index {} last_index {}",
                        lo,
                        lo,
                        lim,
                        match &r {
                            Ok(v) => format!("Ok({})", ents_str(v)),
                            Err(e) => format!("Err({:?})", e),
                        },
                        first,
                        last
                    ),
                )),
                Err((msg, loc)) => {
                    if m.n == 0 {
                        st.inc(C::empty_range_reads_panicked_on_empty_log);
                        out.push((
                            O3_KIND.into(),
                            format!(
                                "entries({}, {}, {:?}) panicked: {} @ {} (no entry stored; first_index {} last_index {}; expected Ok([]))",
                                lo, lo, lim, msg, loc, first, last
                            ),
                        ));
                    } else {
                        out.push((
                            "empty range read panics on a non-empty log".into(),
                            format!(
                                "entries({}, {}, {:?}) panicked: {} @ {} (first_index {} last_index {})",
                                lo, lo, lim, msg, loc, first, last
                            ),
                        ));
                    }
                    match mk() {
                        Some(x) => s = x,
                        None => return,
                    }
                }
            }
        }
    }

}

/// Informational probe (O3b): `compact(last+1)` — inside the documented panic bound,
/// outside "the application must not compact beyond applied"; not part of the alphabet.
fn probe_compact_beyond_last(hist: &[Op], m: &Model, depth: usize, st: &mut Stats) {
    let (first, last) = (m.first(), m.last());
    let Ok(p) = build_mem(hist) else { return };
    st.inc(C::probe_compact_last_plus_1);
    let r = guarded(|| {
        let r = p.wl().compact(last + 1);
        (r.is_ok(), p.first_index(), p.last_index())
    });
    match r {
        Ok((ok, Ok(f2), Ok(l2))) => {
            if l2 < last {
                st.inc(C::probe_compact_last_plus_1_last_index_regressed);
            }
            if f2 < first {
                st.inc(C::probe_compact_last_plus_1_first_index_regressed);
            }
            if l2 < last || f2 < first {
                st.example("probe_compact_last_plus_1", depth, || {
                    format!(
                        "first_index {} last_index {} snapshot point {}: compact({}) returned ok={} and left first_index {} last_index {}",
                        first, last, m.snap_i, last + 1, ok, f2, l2
                    )
                });
            }
        }
        _ => st.inc(C::probe_compact_last_plus_1_panicked),
    }
}

// ------------------------------------------------------------------------------------
// search

#[derive(Clone)]
struct Node {
    parent: u32,
    op: Op,
    model: Model,
    depth: u16,
    key: u128,
}

#[derive(Clone, Debug)]
struct Found {
    kind: String,
    detail: String,
    hist: Vec<Op>,
}

struct Cand {
    key: u128,
    model: Model,
    parent: u32,
    op_idx: u32,
    op: Op,
}

#[derive(Default)]
struct WorkerOut {
    cands: Vec<Cand>,
    found: Vec<Found>,
    transitions: u64,
    expanded: u64,
}

fn history(nodes: &[Node], id: u32) -> Vec<Op> {
    let mut h = vec![];
    let mut cur = id;
    while cur != 0 {
        h.push(nodes[cur as usize].op);
        cur = nodes[cur as usize].parent;
    }
    h.reverse();
    h
}

fn count_op(m: &Model, op: &Op, st: &mut Stats) {
    let (first, last) = (m.first(), m.last());
    match *op {
        Op::Append { start, n, .. } => {
            let start = start as u64;
            if start > last {
                st.inc(C::op_append_at_tail);
            } else {
                st.inc(C::op_append_overwriting);
                if start + n as u64 - 1 < last {
                    st.inc(C::op_append_overwriting_and_shortening);
                }
            }
            if m.compacted_past_snapshot() {
                st.inc(C::op_append_after_compaction);
            }
            if m.snap_i > 0 {
                st.inc(C::op_append_after_snapshot);
            }
        }
        Op::Compact(c) => {
            let c = c as u64;
            if c > first {
                st.inc(C::op_compact_removed_entries);
                if c > m.hs_commit as u64 {
                    st.inc(C::op_compact_beyond_commit);
                }
            } else {
                st.inc(C::op_compact_noop);
            }
        }
        Op::Snap { i, t, .. } => {
            let i = i as u64;
            if i < first {
                st.inc(C::op_snapshot_out_of_date);
            } else if i > last {
                st.inc(C::op_snapshot_beyond_log);
            } else {
                st.inc(C::op_snapshot_inside_log);
                if i == last {
                    st.inc(C::op_snapshot_at_last);
                }
                if m.term_at(i) != Some(t as u64) {
                    st.inc(C::op_snapshot_inside_log_conflicting_term);
                }
            }
            if i >= first && i < m.hs_commit as u64 {
                st.inc(C::op_snapshot_lowered_commit);
            }
        }
        Op::SetHs { .. } => st.inc(C::op_set_hardstate),
        Op::CommitTo(_) => st.inc(C::op_commit_to),
        Op::SetCs(_) => st.inc(C::op_set_conf_state),
    }
}

/// Applies `op` after `hist` on fresh instances and compares the mutator's answer with the
/// model. Returns the successor (mem, sim, model) or the violation.
fn step(
    hist: &[Op],
    parent_sim: &Store,
    m: &Model,
    op: &Op,
    st: &mut Stats,
) -> Result<(MemStorage, Result<Store, String>, Model), (String, String)> {
    let mem = match build_mem(hist) {
        Ok(s) => s,
        Err((k, msg, loc)) => {
            return Err((
                "machinery: history no longer replays".into(),
                format!("operation #{} panicked on replay: {} @ {}", k, msg, loc),
            ))
        }
    };
    let mut m2 = *m;
    let want = m2.apply(op);
    let got = match guarded(|| apply_mem(&mem, op)) {
        Ok(r) => r,
        Err((msg, loc)) => {
            return Err((
                format!("panic in {}", op.name()),
                format!(
                    "{} within its documented preconditions panicked: {} @ {} (state before: {})",
                    op.to_json(),
                    msg,
                    loc,
                    m.describe()
                ),
            ))
        }
    };
    match (want, &got) {
        (Expect::Ok, Ok(())) => {}
        (Expect::OutOfDate, Err(Error::Store(StorageError::SnapshotOutOfDate))) => {
            st.inc(C::err_snapshot_out_of_date);
        }
        (Expect::OutOfDate, _) => {
            return Err((
                "apply_snapshot: out-of-date snapshot not answered with SnapshotOutOfDate".into(),
                format!("{} returned {:?} (state before: {})", op.to_json(), got, m.describe()),
            ))
        }
        (Expect::Ok, Err(e)) => {
            return Err((
                format!("{}: error within documented preconditions", op.name()),
                format!("{} returned Err({:?}) (state before: {})", op.to_json(), e, m.describe()),
            ))
        }
    }
    let mut sim = parent_sim.clone();
    let simr = guarded(|| {
        apply_sim(&mut sim, op, m, &m2, st);
    })
    .map(|_| sim)
    .map_err(|(msg, loc)| format!("{} panicked on SimStorage: {} @ {}", op.to_json(), msg, loc));
    Ok((mem, simr, m2))
}

struct Shared<'a> {
    nodes: &'a [Node],
    visited: &'a HashMap<u128, u32>,
    bounds: &'a Bounds,
    stop: &'a AtomicBool,
    deadline: Instant,
}

fn is_blocking(kind: &str) -> bool {
    kind != O3_KIND
}

fn process(sh: &Shared, id: u32, st: &mut Stats, local: &mut HashSet<u128>, out: &mut WorkerOut) {
    let node = &sh.nodes[id as usize];
    let m = node.model;
    let hist = history(sh.nodes, id);
    let depth = hist.len();

    // 1. the full oracle on this state
    let mut v: Vec<(String, String)> = vec![];
    let mk_mem = || build_mem(&hist).ok();
    check_state(&mk_mem, &m, true, depth, st, &mut v);
    probe_compact_beyond_last(&hist, &m, depth, st);
    let sim = match build_sim(&hist) {
        Ok(s) => s,
        Err((msg, loc)) => {
            out.found.push(Found {
                kind: format!("{}history panicked", SIM_PREFIX),
                detail: format!("{} @ {}", msg, loc),
                hist: hist.clone(),
            });
            return;
        }
    };
    let mut vs: Vec<(String, String)> = vec![];
    let mk_sim = || Some(sim.clone());
    check_state(&mk_sim, &m, false, depth, st, &mut vs);
    let mut blocked = false;
    let mut seen: HashSet<String> = HashSet::new();
    for (k, d) in v {
        blocked |= is_blocking(&k);
        if seen.insert(k.clone()) {
            out.found.push(Found {
                kind: k,
                detail: format!("{} — {}", d, m.describe()),
                hist: hist.clone(),
            });
        }
    }
    for (k, d) in vs {
        blocked = true;
        let k = format!("{}{}", SIM_PREFIX, k);
        if seen.insert(k.clone()) {
            out.found.push(Found {
                kind: k,
                detail: format!("{} — {}", d, m.describe()),
                hist: hist.clone(),
            });
        }
    }
    if blocked {
        // implementation and model have diverged: successors would only repeat it
        return;
    }

    // 2. every operation of the alphabet
    out.expanded += 1;
    let mut ops = vec![];
    alphabet(&m, sh.bounds, &mut ops);
    let mut h2 = hist.clone();
    for (oi, op) in ops.iter().enumerate() {
        debug_assert!(m.legal(op));
        count_op(&m, op, st);
        out.transitions += 1;
        match step(&hist, &sim, &m, op, st) {
            Err((k, d)) => {
                h2.push(*op);
                out.found.push(Found {
                    kind: k,
                    detail: d,
                    hist: h2.clone(),
                });
                h2.pop();
            }
            Ok((mem, simr, m2)) => {
                let sim2 = match simr {
                    Ok(s) => s,
                    Err(d) => {
                        h2.push(*op);
                        out.found.push(Found {
                            kind: format!("{}operation panicked", SIM_PREFIX),
                            detail: d,
                            hist: h2.clone(),
                        });
                        h2.pop();
                        continue;
                    }
                };
                let key = state_key(&mem, &sim2, &m2, sh.bounds);
                if sh.visited.contains_key(&key) || !local.insert(key) {
                    continue;
                }
                out.cands.push(Cand {
                    key,
                    model: m2,
                    parent: id,
                    op_idx: oi as u32,
                    op: *op,
                });
            }
        }
    }
}

fn shuffle(v: &mut [u32], seed: u64) {
    if seed == 0 {
        return;
    }
    let mut x = seed ^ 0x9e3779b97f4a7c15;
    for i in (1..v.len()).rev() {
        x ^= x << 13;
        x ^= x >> 7;
        x ^= x << 17;
        let j = (x % (i as u64 + 1)) as usize;
        v.swap(i, j);
    }
}

pub fn run(tier: &str, seed: u64, budget_s: f64, threads: usize) -> CompResult {
    let t0 = Instant::now();
    let b = bounds_for(tier);
    let threads = threads.clamp(1, 64);
    let deadline = t0 + std::time::Duration::from_secs_f64((budget_s * 0.85).max(1.0));

    let mut st = Stats::new();
    let m0 = Model::new();
    let key0 = {
        let mem = MemStorage::new();
        let sim = Store::new(cs_of(0));
        state_key(&mem, &sim, &m0, &b)
    };
    let mut nodes: Vec<Node> = vec![Node {
        parent: 0,
        op: Op::SetCs(0),
        model: m0,
        depth: 0,
        key: key0,
    }];
    let mut visited: HashMap<u128, u32> = HashMap::new();
    visited.insert(key0, 0);
    let mut frontier: Vec<u32> = vec![0];
    let mut transitions = 0u64;
    let mut expanded = 0u64;
    let mut cap_hit: Option<String> = None;
    // kind -> shortest (detail, history)
    let mut found: BTreeMap<String, Found> = BTreeMap::new();
    let mut found_order: Vec<String> = vec![];
    let mut max_depth = 0usize;
    let mut level_sizes: Vec<usize> = vec![];
    let mut first_violation_level: Option<usize> = None;

    while !frontier.is_empty() {
        shuffle(&mut frontier, seed.wrapping_add(level_sizes.len() as u64 * 7919));
        level_sizes.push(frontier.len());
        let stop = AtomicBool::new(false);
        let next = AtomicUsize::new(0);
        let sh = Shared {
            nodes: &nodes,
            visited: &visited,
            bounds: &b,
            stop: &stop,
            deadline,
        };
        let fr = &frontier;
        let mut outs: Vec<(WorkerOut, Stats)> = vec![];
        std::thread::scope(|scope| {
            let mut hs = vec![];
            for _ in 0..threads {
                let sh = &sh;
                let next = &next;
                hs.push(scope.spawn(move || {
                    let mut out = WorkerOut::default();
                    let mut st = Stats::new();
                    let mut local: HashSet<u128> = HashSet::new();
                    loop {
                        if sh.stop.load(Ordering::Relaxed) {
                            break;
                        }
                        let k = next.fetch_add(8, Ordering::Relaxed);
                        if k >= fr.len() {
                            break;
                        }
                        if Instant::now() > sh.deadline {
                            sh.stop.store(true, Ordering::Relaxed);
                            break;
                        }
                        for id in &fr[k..(k + 8).min(fr.len())] {
                            process(sh, *id, &mut st, &mut local, &mut out);
                        }
                    }
                    (out, st)
                }));
            }
            for h in hs {
                match h.join() {
                    Ok(x) => outs.push(x),
                    Err(_) => {}
                }
            }
        });
        if outs.len() != threads {
            cap_hit = Some("machinery: a worker thread died".into());
        }
        let timed_out = stop.load(Ordering::Relaxed);
        let mut cands: Vec<Cand> = vec![];
        let mut fl: Vec<Found> = vec![];
        for (o, s) in outs {
            st.merge(&s);
            transitions += o.transitions;
            expanded += o.expanded;
            cands.extend(o.cands);
            fl.extend(o.found);
        }
        // deterministic choice among equally short witnesses
        fl.sort_by(|a, c| {
            (a.hist.len(), format!("{:?}", a.hist)).cmp(&(c.hist.len(), format!("{:?}", c.hist)))
        });
        for f in fl {
            if !found.contains_key(&f.kind) {
                found_order.push(f.kind.clone());
                found.insert(f.kind.clone(), f);
            }
        }
        cands.sort_by_key(|c| (c.parent, c.op_idx));
        let mut nf = vec![];
        for c in cands {
            if visited.contains_key(&c.key) {
                continue;
            }
            let id = nodes.len() as u32;
            let depth = nodes[c.parent as usize].depth + 1;
            max_depth = max_depth.max(depth as usize);
            visited.insert(c.key, id);
            nodes.push(Node {
                parent: c.parent,
                op: c.op,
                model: c.model,
                depth,
                key: c.key,
            });
            nf.push(id);
        }
        frontier = nf;
        if cap_hit.is_some() {
            break;
        }
        if timed_out {
            cap_hit = Some(format!(
                "time budget ({:.0} s) reached at depth {}",
                budget_s,
                level_sizes.len() - 1
            ));
            break;
        }
        let blocking = found.keys().filter(|k| is_blocking(k) && !k.starts_with(SIM_PREFIX)).count();
        if blocking > 0 && first_violation_level.is_none() {
            first_violation_level = Some(level_sizes.len());
        }
        if blocking >= 5 || first_violation_level.map_or(false, |l| level_sizes.len() >= l + 2) {
            // shortest witnesses are already in hand (BFS order); two more levels were
            // searched for further kinds
            cap_hit = Some(format!("stopped after {} distinct violation kinds", blocking));
            break;
        }
        if nodes.len() > b.max_states {
            cap_hit = Some(format!("state cap {} reached", b.max_states));
            break;
        }
    }

    // ---- determinism self-check: re-execute sampled histories from the initial state
    let mut validated = 0u64;
    let mut nondet: Option<String> = None;
    {
        let n = nodes.len();
        let want = 600usize.min(n);
        let stride = (n / want.max(1)).max(1);
        let mut k = 0usize;
        while k < n && Instant::now() < t0 + std::time::Duration::from_secs_f64(budget_s.max(2.0)) {
            let id = ((k as u64 + seed) % n as u64) as u32;
            let h = history(&nodes, id);
            let mut m = Model::new();
            for op in &h {
                m.apply(op);
            }
            let ok = match (build_mem(&h), build_sim(&h)) {
                (Ok(mem), Ok(sim)) => {
                    m == nodes[id as usize].model
                        && state_key(&mem, &sim, &m, &b) == nodes[id as usize].key
                }
                _ => false,
            };
            if !ok && nondet.is_none() {
                nondet = Some(format!("history of state {} does not reproduce its key", id));
            }
            validated += 1;
            k += stride;
        }
    }

    // ---- result
    let sim_dis: Vec<&Found> = found_order
        .iter()
        .filter(|k| k.starts_with(SIM_PREFIX))
        .map(|k| &found[k])
        .collect();
    let machinery: Vec<&Found> = found_order
        .iter()
        .filter(|k| k.starts_with("machinery:"))
        .map(|k| &found[k])
        .collect();
    let mut violations = vec![];
    for k in &found_order {
        if k.starts_with(SIM_PREFIX) || k.starts_with("machinery:") {
            continue;
        }
        let f = &found[k];
        violations.push((f.kind.clone(), f.detail.clone(), hist_json(&f.hist)));
    }

    let must: &[C] = &[
        C::op_append_at_tail,
        C::op_append_overwriting,
        C::op_append_overwriting_and_shortening,
        C::op_append_after_compaction,
        C::op_append_after_snapshot,
        C::op_compact_noop,
        C::op_compact_removed_entries,
        C::op_snapshot_out_of_date,
        C::op_snapshot_inside_log,
        C::op_snapshot_inside_log_conflicting_term,
        C::op_snapshot_beyond_log,
        C::op_set_hardstate,
        C::op_commit_to,
        C::op_set_conf_state,
        C::err_snapshot_out_of_date,
        C::err_term_compacted,
        C::err_term_unavailable,
        C::err_entries_compacted,
        C::term_ok_stored_entry,
        C::term_ok_snapshot_point,
        C::entries_reads_ok,
        C::entries_limited_reads_truncated,
        C::entries_at_least_one_rule_applied,
        C::snapshot_reads_checked,
        C::initial_state_checked,
        C::sim_states_checked,
    ];
    let clean = violations.iter().all(|(k, _, _)| !is_blocking(k));
    let mut zero: Vec<&str> = vec![];
    if clean {
        for c in must {
            if st.get(*c) == 0 {
                zero.push(CNAMES[*c as usize]);
            }
        }
        // the empty-range sub-alphabet must have been exercised one way or the other
        if st.get(C::empty_range_reads_ok) + st.get(C::empty_range_reads_panicked_on_empty_log) == 0 {
            zero.push("empty_range_reads");
        }
    }
    let mut nonvacuous = zero.is_empty();
    let mut notes: Vec<String> = vec![];
    if let Some(f) = sim_dis.first() {
        nonvacuous = false;
        notes.push(format!(
            "{} {} after {}",
            f.kind,
            f.detail,
            hist_json(&f.hist)["history"]
        ));
    }
    if let Some(f) = machinery.first() {
        nonvacuous = false;
        notes.push(format!("{} {}", f.kind, f.detail));
    }
    if let Some(n) = &nondet {
        nonvacuous = false;
        notes.push(format!("machinery: non-deterministic replay: {}", n));
    }
    if !zero.is_empty() {
        notes.push(format!("vacuous: counters at zero: {}", zero.join(", ")));
    }
    if !notes.is_empty() {
        let n = notes.join("; ");
        cap_hit = Some(match cap_hit {
            Some(c) => format!("{}; {}", n, c),
            None => n,
        });
    }
    let exhaustive = cap_hit.is_none();

    let mut counters = serde_json::Map::new();
    for (k, name) in CNAMES.iter().enumerate() {
        counters.insert(name.to_string(), json!(st.c[k]));
    }
    let o3_found = found.get(O3_KIND);
    let stats = json!({
        "bounds": {
            "max_index": b.max_index, "max_term": b.max_term,
            "hard_state_terms": b.hs_terms, "votes": b.votes,
            "append_lengths": [1, 2], "conf_states": 2,
        },
        "states_expanded": expanded,
        "max_depth": max_depth,
        "level_sizes": level_sizes,
        "counters": counters,
        "simstorage": match sim_dis.first() {
            Some(f) => json!({"agrees": false, "first": format!("{} {}", f.kind, f.detail), "ops": hist_json(&f.hist)}),
            None => json!({"agrees": true, "compared": "first/last index, term(i), entries(lo<hi, limit) and their error cases"}),
        },
        "probes": {
            "O3a_empty_range_read_on_empty_log": match o3_found {
                Some(f) => json!({"verdict": "violation reported under its own kind", "kind": O3_KIND, "detail": f.detail, "ops": hist_json(&f.hist)}),
                None => json!({"verdict": "no panic observed", "reads_ok": st.get(C::empty_range_reads_ok)}),
            },
            "O3b_compact_last_plus_1 (informational, outside the alphabet)": {
                "probed_states": st.get(C::probe_compact_last_plus_1),
                "last_index_regressed": st.get(C::probe_compact_last_plus_1_last_index_regressed),
                "first_index_regressed": st.get(C::probe_compact_last_plus_1_first_index_regressed),
                "panicked": st.get(C::probe_compact_last_plus_1_panicked),
                "example": st.examples.get("probe_compact_last_plus_1").map(|x| x.1.clone()),
            },
            "O3c_snapshot_request_above_commit (informational, not demanded by the statement)": {
                "probed_states": st.get(C::probe_snapshot_above_commit),
                "index_bumped_to_request_with_term_of_commit_index": st.get(C::probe_snapshot_above_commit_index_bumped_term_of_commit),
                "other": st.get(C::probe_snapshot_above_commit_other),
                "example": st.examples.get("probe_snapshot_above_commit_term_differs").or(st.examples.get("probe_snapshot_above_commit")).map(|x| x.1.clone()),
            },
            "term_of_first_index_minus_1_after_compaction (trait doc: retained; accepted: term or Compacted)": {
                "memstorage_answered_Compacted": st.get(C::term_before_first_after_compaction_answered_compacted),
                "memstorage_answered_term": st.get(C::term_before_first_after_compaction_answered_term),
                "simstorage_answered_Compacted": st.get(C::sim_term_before_first_after_compaction_answered_compacted),
                "simstorage_answered_term": st.get(C::sim_term_before_first_after_compaction_answered_term),
            },
        },
    });

    // samples: the deepest history, one from the middle, the last one found
    let mut samples = vec![];
    if !nodes.is_empty() {
        let deepest = (0..nodes.len()).max_by_key(|i| (nodes[*i].depth, *i)).unwrap();
        // a snapshot, then appends, then a compaction past the snapshot point
        let rich = (0..nodes.len())
            .filter(|i| {
                let m = &nodes[*i].model;
                m.snap_i > 0 && m.compacted_past_snapshot() && m.n > 1
            })
            .max_by_key(|i| (nodes[*i].depth, *i))
            .unwrap_or(nodes.len() / 3);
        let mut ids: Vec<usize> = vec![];
        for id in [deepest, rich, nodes.len() / 2, nodes.len() / 3] {
            if !ids.contains(&id) && ids.len() < 3 {
                ids.push(id);
            }
        }
        for id in ids {
            let h = history(&nodes, id as u32);
            samples.push(json!({
                "engine": "memstorage",
                "history": hist_json(&h)["history"],
                "reaches": nodes[id].model.describe(),
            }));
        }
    }

    CompResult {
        engine: "memstorage".into(),
        states: nodes.len() as u64,
        transitions,
        validated,
        exhaustive,
        cap_hit,
        samples,
        stats,
        violations,
        nonvacuous,
        wall_s: t0.elapsed().as_secs_f64(),
    }
}

// ------------------------------------------------------------------------------------
// replay

pub fn replay(j: &Value) -> i32 {
    let ops = j.get("ops").unwrap_or(j);
    let Some(arr) = ops.get("history").and_then(|h| h.as_array()) else {
        eprintln!("memstorage replay: no ops.history array");
        return 2;
    };
    let want_kind = j.get("kind").and_then(|k| k.as_str()).map(|s| s.to_string());
    let mut hist: Vec<Op> = vec![];
    for o in arr {
        match Op::from_json(o) {
            Some(op) => hist.push(op),
            None => {
                eprintln!("memstorage replay: cannot parse operation {}", o);
                return 2;
            }
        }
    }
    let mut st = Stats::new();
    let mut m = Model::new();
    let mut sim = Store::new(cs_of(0));
    let mut all: Vec<(String, String)> = vec![];
    println!("init MemStorage::new(): {}", m.describe());
    for k in 0..hist.len() {
        let op = hist[k];
        if !m.legal(&op) {
            eprintln!(
                "memstorage replay: operation #{} {} is outside the documented preconditions in {}",
                k,
                op.to_json(),
                m.describe()
            );
            return 2;
        }
        match step(&hist[..k], &sim, &m, &op, &mut st) {
            Err((kind, d)) => {
                println!("#{} {} -> VIOLATION [{}] {}", k, op.to_json(), kind, d);
                all.push((kind, d));
                break;
            }
            Ok((mem, simr, m2)) => {
                m = m2;
                match simr {
                    Ok(s) => sim = s,
                    Err(d) => {
                        all.push((format!("{}operation panicked", SIM_PREFIX), d));
                        break;
                    }
                }
                println!(
                    "#{} {} -> first_index {:?} last_index {:?}; {}",
                    k,
                    op.to_json(),
                    mem.first_index(),
                    mem.last_index(),
                    m.describe()
                );
                if k + 1 == hist.len() {
                    let h = &hist[..];
                    let mk_mem = || build_mem(h).ok();
                    let mut v = vec![];
                    check_state(&mk_mem, &m, true, h.len(), &mut st, &mut v);
                    all.extend(v);
                    let mk_sim = || Some(sim.clone());
                    let mut vs = vec![];
                    check_state(&mk_sim, &m, false, h.len(), &mut st, &mut vs);
                    all.extend(vs.into_iter().map(|(k, d)| (format!("{}{}", SIM_PREFIX, k), d)));
                }
            }
        }
    }
    if hist.is_empty() {
        let mk_mem = || build_mem(&[]).ok();
        let mut v = vec![];
        check_state(&mk_mem, &m, true, 0, &mut st, &mut v);
        all.extend(v);
        let mk_sim = || Some(sim.clone());
        let mut vs = vec![];
        check_state(&mk_sim, &m, false, 0, &mut st, &mut vs);
        all.extend(vs.into_iter().map(|(k, d)| (format!("{}{}", SIM_PREFIX, k), d)));
    }
    let mut hit = false;
    let mut seen = HashSet::new();
    for (k, d) in &all {
        if seen.insert(k.clone()) {
            println!("violation [{}] {}", k, d);
        }
        match &want_kind {
            Some(w) => hit |= w == k,
            None => hit = true,
        }
    }
    if hit {
        println!(
            "VIOLATION property={} reproduced",
            j.get("property").and_then(|p| p.as_str()).unwrap_or("C19")
        );
        1
    } else {
        println!("no violation{} on this replay", want_kind.map(|k| format!(" of kind [{}]", k)).unwrap_or_default());
        0
    }
}
