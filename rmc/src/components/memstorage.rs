use crate::check::CompResult;

pub fn run(_tier: &str, _seed: u64, _budget_s: f64, _threads: usize) -> CompResult {
    super::not_built("memstorage")
}

pub fn replay(_j: &serde_json::Value) -> i32 {
    2
}
