//! C14 — RaftLog behaves as one logical log over storage + unstable + pending snapshot.
//!
//! Joint breadth-first search over pairs (real `raft::RaftLog<sim::Store>`, reference model)
//! under every operation of the alphabet below, from every reachable pair, until the
//! fixpoint under the value bounds of the tier (index <= n, term <= t, at most q persist
//! notifications outstanding, appends of at most k entries):
//!   quick     n=5 t=3 q=2 k=2                      (12.2e6 pairs, 0.5e6 distinct RaftLog states)
//!   thorough  n=6 t=3 q=2 k=2, then n=4 t=3 q=3 k=2 (63.9e6 and 33.2e6 pairs, 2.07e6 and 0.1e6 states)
//! (`RMC_RAFTLOG_BOUNDS=n,t,q,k` overrides the bounds for experiments.)
//!
//! Reference model: one logical log — a snapshot point `(snap_i, snap_t)`, the terms of the
//! entries after it, the split point `offset` (first index not yet handed to storage), a
//! pending-snapshot flag, `committed`, `persisted`, `applied` — next to a plain model of what
//! the storage holds (its own snapshot point + terms; it may carry a stale tail above
//! `offset` after a truncation reached into it) and the FIFO of ready records RawNode keeps
//! for `on_persist_ready`.  Entry payloads are a function of (index, term) (Log Matching: a
//! pair identifies one entry) with three different sizes so that size limits cut at
//! different places.
//!
//! Alphabet (driven the way Raft / RawNode drive RaftLog):
//!   Append{k,t}          leader `append` of k entries at last+1, term t >= last term
//!   MaybeAppend{..}      follower `maybe_append(prev_i, prev_t, commit, ents)`; all prev_i in
//!                        0..=last+1, prev_t in 0..=T, commit in 0..=n, 0..=k entries with
//!                        non-decreasing terms >= prev_t.  Excluded by the model's knowledge:
//!                        a conflict at an index <= committed (documented panic) and a
//!                        "match" of prev_t = 0 at prev_i > 0 (no real entry has term 0; such a
//!                        pair only "matches" outside [dummy, last]).  Rejected pairs (term
//!                        mismatch) return before looking at commit/entries, so they are run
//!                        with two representative (commit, entries) payloads.
//!   CommitTo(i)          i <= last (beyond last is the documented panic)
//!   MaybeCommit(i,t)     i <= last+1, t >= 1 (Raft passes its own term)
//!   Ready                RawNode::ready + application write + commit_ready as one step:
//!                        take unstable snapshot/entries, WriteOp::Snapshot, WriteOp::Entries,
//!                        `stable_snap`, `stable_entries`; pushes the ready record
//!   Persist(k)           RawNode::on_persist_ready over the k oldest records: fold them as
//!                        RawNode does, `maybe_persist_snap`, then `maybe_persist` — records
//!                        may be arbitrarily stale (appends, truncations, restores, further
//!                        readies in between)
//!   Restore(i,t)         snapshot at i >= committed (i == committed only with the log's own
//!                        term there: committed entries agree with any snapshot)
//!   AppliedTo(i)         applied <= i <= min(committed, persisted) (limit 0: RawNode only
//!                        hands out persisted entries)
//!   Compact(i)           storage compaction, storage dummy < i <= applied
//!
//! After every execution of an operation: return value against the model, `committed`
//! monotone, no entry at or below `committed` altered.  For every new (RaftLog, model) state
//! all observers are compared with the model — term, first/last index, last_term, match_term,
//! is_up_to_date, commit_info, entries/slice for every range x limit {None, 0, one entry, two
//! entries - 1, two entries, u64::MAX}, find_conflict, find_conflict_by_term,
//! (has_)next_entries(_since) also with max_apply_unpersisted_log_limit 1 and 100,
//! unstable_entries/unstable_snapshot, snapshot(), the Unstable accessors, the storage content
//! — and the invariants of the property are evaluated: applied <= committed <= last_index,
//! applied <= persisted (limit 0), persisted < unstable.offset, persisted <= storage last
//! index with the storage's term there equal to the log's.
//!
//! The ready records are harness state RaftLog never sees, so the real code is executed once
//! per (RaftLog state, operation with arguments) and the result is reused for every record
//! queue that state is paired with (see "exploration" below); the pair count and the
//! reachable set are exactly those of the plain product search.
//!
//! Not covered: max_apply_unpersisted_log_limit > 0 as a driver of applied_to (only its
//! observers), restart (`RaftLog::new` over a non-empty store), a second pass over MemStorage
//! (MemStorage itself is the subject of C19), LogTemporarilyUnavailable from the storage.

use crate::check::CompResult;
use crate::sim::{Store, WriteOp};
use crate::util::guarded;
use raft::eraftpb::{ConfState, Entry, Snapshot};
use raft::{Config, Error, GetEntriesContext, RaftLog, Storage, StorageError};
use serde_json::{json, Value};
use std::collections::HashSet;
use std::sync::atomic::{AtomicBool, Ordering};
use std::sync::Mutex;

// ------------------------------------------------------------------------------------------
// bounds
// ------------------------------------------------------------------------------------------

#[derive(Clone, Copy, Debug)]
struct Bounds {
    /// largest index
    n: u64,
    /// largest term
    t: u64,
    /// most ready records outstanding (async persistence depth)
    q: usize,
    /// most entries per append
    k: usize,
}

/// The passes of a tier.  quick: one fixpoint at index <= 5, term <= 3, two outstanding
/// readies.  thorough: index <= 6 with two outstanding readies, then index <= 4 with three
/// (n=5 with three outstanding readies reaches no RaftLog state beyond the quick pass: 312e6
/// pairs over the same 503,535 states, five minutes spent in the pair closure alone).
fn bounds_for(tier: &str) -> Vec<Bounds> {
    if let Ok(v) = std::env::var("RMC_RAFTLOG_BOUNDS") {
        let x: Vec<u64> = v.split(',').filter_map(|a| a.parse().ok()).collect();
        if x.len() == 4 {
            return vec![Bounds {
                n: x[0].clamp(1, 7),
                t: x[1].clamp(1, 3),
                q: (x[2] as usize).clamp(1, 3),
                k: (x[3] as usize).clamp(1, 2),
            }];
        }
    }
    if tier == "thorough" {
        vec![Bounds { n: 6, t: 3, q: 2, k: 2 }, Bounds { n: 4, t: 3, q: 3, k: 2 }]
    } else {
        vec![Bounds { n: 5, t: 3, q: 2, k: 2 }]
    }
}

// ------------------------------------------------------------------------------------------
// entries and sizes
// ------------------------------------------------------------------------------------------

fn payload_len(index: u64, term: u64) -> usize {
    ((index + 2 * term) % 3) as usize
}

fn mk_entry(index: u64, term: u64) -> Entry {
    let mut e = Entry::default();
    e.index = index;
    e.term = term;
    let n = payload_len(index, term);
    if n > 0 {
        // static payloads: cloning an entry touches no shared reference count
        const P: [&[u8]; 8] = [b"@@", b"aa", b"bb", b"cc", b"dd", b"ee", b"ff", b"gg"];
        e.data = bytes::Bytes::from_static(&P[(term & 7) as usize][..n]);
    }
    e
}

/// Wire size of `mk_entry(index, term)` computed by hand (all varints are one byte here):
/// tag+term, tag+index, tag+len+payload.  Checked against protobuf at start-up.
fn esize(index: u64, term: u64) -> u64 {
    let n = payload_len(index, term) as u64;
    let mut s = 0;
    if term > 0 {
        s += 2;
    }
    if index > 0 {
        s += 2;
    }
    if n > 0 {
        s += 2 + n;
    }
    s
}

fn mk_snapshot(index: u64, term: u64) -> Snapshot {
    let mut s = Snapshot::default();
    let m = s.mut_metadata();
    m.index = index;
    m.term = term;
    s
}

/// "Non-empty maximal prefix within the limit": the first entry always, then as many as fit.
fn prefix_len(sizes: &[u64], lim: Option<u64>) -> usize {
    if sizes.is_empty() {
        return 0;
    }
    let lim = match lim {
        None | Some(u64::MAX) => return sizes.len(),
        Some(l) => l,
    };
    let mut n = 1;
    let mut sum = sizes[0];
    while n < sizes.len() && sum + sizes[n] <= lim {
        sum += sizes[n];
        n += 1;
    }
    n
}

// ------------------------------------------------------------------------------------------
// operations
// ------------------------------------------------------------------------------------------

#[derive(Clone, Copy, Debug, PartialEq, Eq)]
enum Op {
    Append { k: u8, t: u8 },
    /// prev index, prev term, commit, number of entries, their terms
    MaybeAppend { pi: u8, pt: u8, c: u8, n: u8, ts: [u8; 2] },
    CommitTo(u8),
    MaybeCommit(u8, u8),
    Ready,
    Persist(u8),
    Restore(u8, u8),
    AppliedTo(u8),
    Compact(u8),
}

impl Op {
    fn name(&self) -> &'static str {
        match self {
            Op::Append { .. } => "append",
            Op::MaybeAppend { .. } => "maybe_append",
            Op::CommitTo(_) => "commit_to",
            Op::MaybeCommit(..) => "maybe_commit",
            Op::Ready => "ready",
            Op::Persist(_) => "persist",
            Op::Restore(..) => "restore",
            Op::AppliedTo(_) => "applied_to",
            Op::Compact(_) => "compact",
        }
    }

    fn to_json(&self) -> Value {
        match *self {
            Op::Append { k, t } => json!({"op": "append", "k": k, "term": t}),
            Op::MaybeAppend { pi, pt, c, n, ts } => json!({
                "op": "maybe_append", "prev_index": pi, "prev_term": pt, "commit": c,
                "entry_terms": ts[..n as usize].to_vec(),
            }),
            Op::CommitTo(i) => json!({"op": "commit_to", "index": i}),
            Op::MaybeCommit(i, t) => json!({"op": "maybe_commit", "index": i, "term": t}),
            Op::Ready => json!({"op": "ready"}),
            Op::Persist(k) => json!({"op": "persist", "records": k}),
            Op::Restore(i, t) => json!({"op": "restore", "index": i, "term": t}),
            Op::AppliedTo(i) => json!({"op": "applied_to", "index": i}),
            Op::Compact(i) => json!({"op": "compact", "index": i}),
        }
    }

    fn from_json(j: &Value) -> Option<Op> {
        let u = |k: &str| -> Option<u8> { j.get(k)?.as_u64().map(|x| x as u8) };
        Some(match j.get("op")?.as_str()? {
            "append" => Op::Append { k: u("k")?, t: u("term")? },
            "maybe_append" => {
                let a = j.get("entry_terms")?.as_array()?;
                if a.len() > 2 {
                    return None;
                }
                let mut ts = [0u8; 2];
                for (p, x) in a.iter().enumerate() {
                    ts[p] = x.as_u64()? as u8;
                }
                Op::MaybeAppend {
                    pi: u("prev_index")?,
                    pt: u("prev_term")?,
                    c: u("commit")?,
                    n: a.len() as u8,
                    ts,
                }
            }
            "commit_to" => Op::CommitTo(u("index")?),
            "maybe_commit" => Op::MaybeCommit(u("index")?, u("term")?),
            "ready" => Op::Ready,
            "persist" => Op::Persist(u("records")?),
            "restore" => Op::Restore(u("index")?, u("term")?),
            "applied_to" => Op::AppliedTo(u("index")?),
            "compact" => Op::Compact(u("index")?),
            _ => return None,
        })
    }
}

/// What an operation returns (implementation) / is expected to return (model).
#[derive(Clone, Debug, PartialEq)]
enum Ret {
    Unit,
    U64(u64),
    Bool(bool),
    OptPair(Option<(u64, u64)>),
    /// snapshot (index, term) and entries handed to the application by this ready
    Ready(Option<(u64, u64)>, Vec<Entry>),
    /// results of maybe_persist_snap / maybe_persist where called
    Persist(Option<bool>, Option<bool>),
}

// ------------------------------------------------------------------------------------------
// non-vacuity counters
// ------------------------------------------------------------------------------------------

const NST: usize = 30;
const S_APPEND: usize = 0;
const S_MAPP_REJECT: usize = 1;
const S_MAPP_NOCONFLICT: usize = 2;
const S_MAPP_PURE_APPEND: usize = 3;
const S_TRUNC_UNSTABLE: usize = 4;
const S_TRUNC_AT_OFFSET: usize = 5;
const S_TRUNC_STABLE: usize = 6;
const S_PERSISTED_LOWERED: usize = 7;
const S_PERSIST_OK: usize = 8;
const S_PERSIST_STALE_OFFSET: usize = 9;
const S_PERSIST_STALE_TERM: usize = 10;
const S_PERSIST_OLD: usize = 11;
const S_PSNAP_OK: usize = 12;
const S_PSNAP_NOOP: usize = 13;
const S_RESTORE: usize = 14;
const S_RESTORE_LOWERED: usize = 15;
const S_COMPACT: usize = 16;
const S_READY_SNAP: usize = 17;
const S_READY_OVERWRITE: usize = 18;
const S_LIMITED: usize = 19;
const S_STITCHED: usize = 20;
const S_SHORT_PAGE: usize = 21;
const S_COMPACTED_ERR: usize = 22;
const S_FCBT_BELOW_DUMMY: usize = 23;
const S_MAPP_COMMIT: usize = 24;
const S_READY_SNAP_AND_ENTS: usize = 25;
const S_PERSIST_SNAP_PENDING: usize = 26;
const S_BLOCKED_PSNAP: usize = 27;
const S_COMPACT_UNDER_SNAP: usize = 28;
const S_RESTORE_OVER_PENDING: usize = 29;

const ST_NAMES: [&str; NST] = [
    "leader_appends",
    "maybe_append_rejected",
    "maybe_append_all_present",
    "maybe_append_pure_append",
    "truncations_inside_unstable",
    "truncations_at_offset",
    "truncations_into_stable_offset_moved_back",
    "persisted_lowered_by_conflict",
    "maybe_persist_accepted",
    "stale_maybe_persist_rejected_not_below_first_update_index",
    "stale_maybe_persist_rejected_storage_term_differs",
    "maybe_persist_rejected_not_above_persisted",
    "maybe_persist_snap_accepted",
    "maybe_persist_snap_noop",
    "snapshot_restores",
    "restore_lowered_persisted",
    "storage_compactions",
    "readies_with_snapshot",
    "readies_overwriting_stale_storage_tail",
    "limited_reads_truncated",
    "stitched_reads_storage_plus_unstable",
    "short_storage_page_reads",
    "compacted_errors",
    "find_conflict_by_term_below_dummy",
    "maybe_append_advanced_commit",
    "readies_with_snapshot_and_entries",
    "maybe_persist_while_snapshot_pending",
    "persist_snap_precondition_blocked",
    "compactions_under_pending_snapshot",
    "restores_over_pending_snapshot",
];

/// Counters that must be positive for the run to count as non-vacuous.
const ST_REQUIRED: [usize; 12] = [
    S_TRUNC_UNSTABLE,
    S_TRUNC_STABLE,
    S_PERSISTED_LOWERED,
    S_PERSIST_OK,
    S_PERSIST_STALE_OFFSET,
    S_PERSIST_STALE_TERM,
    S_RESTORE,
    S_COMPACT,
    S_LIMITED,
    S_STITCHED,
    S_SHORT_PAGE,
    S_PSNAP_OK,
];

type Stats = [u64; NST];

// ------------------------------------------------------------------------------------------
// reference model
// ------------------------------------------------------------------------------------------

#[derive(Clone, Copy, Debug, PartialEq, Eq, Default)]
struct Rec {
    snap: Option<(u64, u64)>,
    last: Option<(u64, u64)>,
}

/// Tiny inline vector (the model is copied for every transition).
#[derive(Clone, Copy, PartialEq, Eq)]
struct SV<T: Copy + Default + PartialEq, const N: usize> {
    len: u8,
    a: [T; N],
}

impl<T: Copy + Default + PartialEq + std::fmt::Debug, const N: usize> std::fmt::Debug for SV<T, N> {
    fn fmt(&self, f: &mut std::fmt::Formatter<'_>) -> std::fmt::Result {
        write!(f, "{:?}", self.as_slice())
    }
}

impl<T: Copy + Default + PartialEq, const N: usize> SV<T, N> {
    fn new() -> Self {
        SV { len: 0, a: [T::default(); N] }
    }
    fn len(&self) -> usize {
        self.len as usize
    }
    fn as_slice(&self) -> &[T] {
        &self.a[..self.len as usize]
    }
    fn push(&mut self, x: T) {
        self.a[self.len as usize] = x;
        self.len += 1;
    }
    fn truncate(&mut self, n: usize) {
        if n < self.len as usize {
            for k in n..self.len as usize {
                self.a[k] = T::default(); // keep the unused tail canonical for ==
            }
            self.len = n as u8;
        }
    }
    fn clear(&mut self) {
        self.truncate(0)
    }
    /// removes the first n elements
    fn drop_front(&mut self, n: usize) {
        let l = self.len as usize;
        let n = n.min(l);
        for k in 0..l {
            self.a[k] = if k + n < l { self.a[k + n] } else { T::default() };
        }
        self.len = (l - n) as u8;
    }
}

#[derive(Clone, Copy, Debug, PartialEq, Eq)]
struct Model {
    // ---- the logical log
    snap_i: u64,
    snap_t: u64,
    /// terms of the entries snap_i+1 ..
    ents: SV<u64, 8>,
    /// first index not yet handed to storage (stable_upto + 1)
    offset: u64,
    /// the snapshot point has not been handed to storage yet
    pending_snap: bool,
    committed: u64,
    persisted: u64,
    applied: u64,
    // ---- what the storage holds
    st_snap_i: u64,
    st_snap_t: u64,
    st_ents: SV<u64, 8>,
    // ---- RawNode's ready records awaiting on_persist_ready
    queue: SV<Rec, 4>,
}

impl Model {
    fn new() -> Model {
        Model {
            snap_i: 0,
            snap_t: 0,
            ents: SV::new(),
            offset: 1,
            pending_snap: false,
            committed: 0,
            persisted: 0,
            applied: 0,
            st_snap_i: 0,
            st_snap_t: 0,
            st_ents: SV::new(),
            queue: SV::new(),
        }
    }
    fn first(&self) -> u64 {
        self.snap_i + 1
    }
    fn last(&self) -> u64 {
        self.snap_i + self.ents.len() as u64
    }
    /// Term of index i; 0 outside [dummy, last] (documented behaviour of `RaftLog::term`).
    fn term(&self, i: u64) -> u64 {
        if i == self.snap_i {
            self.snap_t
        } else if i > self.snap_i && i <= self.last() {
            self.ents.a[(i - self.snap_i - 1) as usize]
        } else {
            0
        }
    }
    fn st_last(&self) -> u64 {
        self.st_snap_i + self.st_ents.len() as u64
    }
    fn st_term(&self, i: u64) -> Option<u64> {
        if i == self.st_snap_i {
            Some(self.st_snap_t)
        } else if i > self.st_snap_i && i <= self.st_last() {
            Some(self.st_ents.a[(i - self.st_snap_i - 1) as usize])
        } else {
            None
        }
    }
    fn truncate_from(&mut self, i: u64) {
        // drop entries >= i
        debug_assert!(i > self.snap_i);
        self.ents.truncate((i - self.snap_i - 1) as usize);
    }
    /// First index whose term differs from the log (0 outside the log), else 0.
    fn find_conflict(&self, start: u64, terms: &[u64]) -> u64 {
        for (p, t) in terms.iter().enumerate() {
            let i = start + p as u64;
            if self.term(i) != *t {
                return i;
            }
        }
        0
    }
    fn fold(recs: &[Rec]) -> (u64, u64, u64) {
        let (mut snap_index, mut index, mut term) = (0, 0, 0);
        for r in recs {
            if let Some((i, _)) = r.snap {
                snap_index = i;
                index = 0;
                term = 0;
            }
            if let Some((i, t)) = r.last {
                index = i;
                term = t;
            }
        }
        (snap_index, index, term)
    }

    /// Sanity of the model itself (a failure is a harness defect, reported loudly).
    fn self_check(&self) -> Option<String> {
        let last = self.last();
        if !(self.first() <= self.offset && self.offset <= last + 1) {
            return Some(format!("offset {} outside [{}, {}]", self.offset, self.first(), last + 1));
        }
        if !(self.applied <= self.committed && self.committed <= last) {
            return Some("applied <= committed <= last broken".into());
        }
        if self.persisted >= self.offset {
            return Some("persisted >= offset".into());
        }
        if self.pending_snap && self.offset != self.snap_i + 1 {
            return Some("pending snapshot but offset != snap+1".into());
        }
        if !self.pending_snap {
            if self.st_snap_i != self.snap_i || self.st_snap_t != self.snap_t {
                return Some("storage dummy differs from logical dummy".into());
            }
            for i in self.first()..self.offset {
                if self.st_term(i) != Some(self.term(i)) {
                    return Some(format!("storage differs from the log below offset at {}", i));
                }
            }
        }
        if self.persisted > self.st_last() {
            return Some("persisted > storage last".into());
        }
        None
    }
}

/// All operations enabled in `m` under the bounds, in a fixed order.
fn enabled_ops(m: &Model, b: &Bounds, st: &mut Stats) -> Vec<Op> {
    let mut v = Vec::with_capacity(256);
    let last = m.last();
    let last_term = m.term(last);
    // leader append
    for k in 1..=b.k as u64 {
        if last + k > b.n {
            break;
        }
        for t in last_term.max(1)..=b.t {
            v.push(Op::Append { k: k as u8, t: t as u8 });
        }
    }
    // follower append
    for pi in 0..=last + 1 {
        for pt in 0..=b.t {
            let matched = m.term(pi) == pt;
            if !matched {
                v.push(Op::MaybeAppend { pi: pi as u8, pt: pt as u8, c: 0, n: 0, ts: [0, 0] });
                if pi + 1 <= b.n {
                    let t1 = pt.max(1) as u8;
                    v.push(Op::MaybeAppend { pi: pi as u8, pt: pt as u8, c: b.n as u8, n: 1, ts: [t1, 0] });
                }
                continue;
            }
            if pt == 0 && pi > 0 {
                // a zero term "matches" only outside the log: not an input a leader can produce
                continue;
            }
            let lo = pt.max(1);
            let mut vecs: SV<(u8, [u8; 2]), 48> = SV::new();
            vecs.push((0, [0, 0]));
            if b.k >= 1 && pi + 1 <= b.n {
                for t1 in lo..=b.t {
                    vecs.push((1, [t1 as u8, 0]));
                    if b.k >= 2 && pi + 2 <= b.n {
                        for t2 in t1..=b.t {
                            vecs.push((2, [t1 as u8, t2 as u8]));
                        }
                    }
                }
            }
            for &(n, ts) in vecs.as_slice() {
                let ta = [ts[0] as u64, ts[1] as u64];
                let conflict = m.find_conflict(pi + 1, &ta[..n as usize]);
                if conflict != 0 && conflict <= m.committed {
                    continue; // documented panic: conflict with a committed entry
                }
                for c in 0..=b.n {
                    v.push(Op::MaybeAppend { pi: pi as u8, pt: pt as u8, c: c as u8, n, ts });
                }
            }
        }
    }
    for i in 0..=last {
        v.push(Op::CommitTo(i as u8));
    }
    for i in 0..=last + 1 {
        for t in 1..=b.t {
            v.push(Op::MaybeCommit(i as u8, t as u8));
        }
    }
    if (m.pending_snap || m.offset <= last) && m.queue.len() < b.q {
        v.push(Op::Ready);
    }
    for k in 1..=m.queue.len() {
        let (snap_index, _, _) = Model::fold(&m.queue.as_slice()[..k]);
        if snap_index > m.persisted && (snap_index > m.committed || snap_index >= m.offset) {
            // would be the documented fatal of maybe_persist_snap; never reachable under the
            // legal call orders (counted; must stay 0)
            st[S_BLOCKED_PSNAP] += 1;
            continue;
        }
        v.push(Op::Persist(k as u8));
    }
    for i in m.committed.max(1)..=b.n {
        for t in 1..=b.t {
            if i <= m.committed && m.term(i) != t {
                continue;
            }
            v.push(Op::Restore(i as u8, t as u8));
        }
    }
    for i in m.applied..=m.committed.min(m.persisted) {
        v.push(Op::AppliedTo(i as u8));
    }
    for i in m.st_snap_i + 1..=m.applied.min(m.st_last()) {
        v.push(Op::Compact(i as u8));
    }
    v
}

/// Applies `op` to the model; returns the expected return value.
fn apply_model(m: &mut Model, op: &Op, st: &mut Stats) -> Ret {
    match *op {
        Op::Append { k, t } => {
            for _ in 0..k {
                m.ents.push(t as u64);
            }
            st[S_APPEND] += 1;
            Ret::U64(m.last())
        }
        Op::MaybeAppend { pi, pt, c, n, ts } => {
            let (pi, pt, c) = (pi as u64, pt as u64, c as u64);
            if m.term(pi) != pt {
                st[S_MAPP_REJECT] += 1;
                return Ret::OptPair(None);
            }
            let ta = [ts[0] as u64, ts[1] as u64];
            let terms = &ta[..n as usize];
            let conflict = m.find_conflict(pi + 1, terms);
            if conflict == 0 {
                st[S_MAPP_NOCONFLICT] += 1;
            } else {
                let last = m.last();
                if conflict > last {
                    st[S_MAPP_PURE_APPEND] += 1;
                } else if conflict > m.offset {
                    st[S_TRUNC_UNSTABLE] += 1;
                } else if conflict == m.offset {
                    st[S_TRUNC_AT_OFFSET] += 1;
                } else {
                    st[S_TRUNC_STABLE] += 1;
                }
                m.truncate_from(conflict);
                for t in &terms[(conflict - pi - 1) as usize..] {
                    m.ents.push(*t);
                }
                if conflict < m.offset {
                    m.offset = conflict;
                }
                if m.persisted > conflict - 1 {
                    m.persisted = conflict - 1;
                    st[S_PERSISTED_LOWERED] += 1;
                }
            }
            let last_new = pi + n as u64;
            let to = c.min(last_new);
            if to > m.committed {
                m.committed = to;
                st[S_MAPP_COMMIT] += 1;
            }
            Ret::OptPair(Some((conflict, last_new)))
        }
        Op::CommitTo(i) => {
            if i as u64 > m.committed {
                m.committed = i as u64;
            }
            Ret::Unit
        }
        Op::MaybeCommit(i, t) => {
            let (i, t) = (i as u64, t as u64);
            if i > m.committed && m.term(i) == t {
                m.committed = i;
                Ret::Bool(true)
            } else {
                Ret::Bool(false)
            }
        }
        Op::Ready => {
            let last = m.last();
            let snap = if m.pending_snap { Some((m.snap_i, m.snap_t)) } else { None };
            let ents: Vec<Entry> = (m.offset..=last).map(|i| mk_entry(i, m.term(i))).collect();
            if let Some((i, t)) = snap {
                m.st_snap_i = i;
                m.st_snap_t = t;
                m.st_ents.clear();
                m.pending_snap = false;
                st[S_READY_SNAP] += 1;
                if !ents.is_empty() {
                    st[S_READY_SNAP_AND_ENTS] += 1;
                }
            }
            let mut rec = Rec { snap, last: None };
            if !ents.is_empty() {
                if m.offset <= m.st_last() {
                    st[S_READY_OVERWRITE] += 1;
                }
                m.st_ents.truncate((m.offset - m.st_snap_i - 1) as usize);
                for e in &ents {
                    m.st_ents.push(e.term);
                }
                rec.last = Some((last, m.term(last)));
                m.offset = last + 1;
            }
            m.queue.push(rec);
            Ret::Ready(snap, ents)
        }
        Op::Persist(k) => {
            let (snap_index, index, term) = Model::fold(&m.queue.as_slice()[..k as usize]);
            m.queue.drop_front(k as usize);
            let mut rs = None;
            let mut re = None;
            if snap_index != 0 {
                if snap_index > m.persisted {
                    m.persisted = snap_index;
                    st[S_PSNAP_OK] += 1;
                    rs = Some(true);
                } else {
                    st[S_PSNAP_NOOP] += 1;
                    rs = Some(false);
                }
            }
            if index != 0 {
                // documented rule: only forward below the first index that still awaits a write
                let first_update = if m.pending_snap { m.snap_i } else { m.offset };
                if m.pending_snap {
                    st[S_PERSIST_SNAP_PENDING] += 1;
                }
                if index <= m.persisted {
                    st[S_PERSIST_OLD] += 1;
                    re = Some(false);
                } else if index >= first_update {
                    st[S_PERSIST_STALE_OFFSET] += 1;
                    re = Some(false);
                } else if m.st_term(index) != Some(term) {
                    st[S_PERSIST_STALE_TERM] += 1;
                    re = Some(false);
                } else {
                    m.persisted = index;
                    st[S_PERSIST_OK] += 1;
                    re = Some(true);
                }
            }
            Ret::Persist(rs, re)
        }
        Op::Restore(i, t) => {
            if m.pending_snap {
                st[S_RESTORE_OVER_PENDING] += 1;
            }
            if m.persisted > m.committed {
                m.persisted = m.committed;
                st[S_RESTORE_LOWERED] += 1;
            }
            m.committed = i as u64;
            m.snap_i = i as u64;
            m.snap_t = t as u64;
            m.ents.clear();
            m.offset = i as u64 + 1;
            m.pending_snap = true;
            st[S_RESTORE] += 1;
            Ret::Unit
        }
        Op::AppliedTo(i) => {
            if i > 0 {
                m.applied = i as u64;
            }
            Ret::Unit
        }
        Op::Compact(i) => {
            let i = i as u64;
            let t = m.st_term(i).expect("compact inside storage");
            m.st_ents.drop_front((i - m.st_snap_i) as usize);
            m.st_snap_i = i;
            m.st_snap_t = t;
            if !m.pending_snap {
                let lt = m.term(i);
                m.ents.drop_front((i - m.snap_i) as usize);
                m.snap_i = i;
                m.snap_t = lt;
            } else {
                st[S_COMPACT_UNDER_SNAP] += 1;
            }
            st[S_COMPACT] += 1;
            Ret::Unit
        }
    }
}

// ------------------------------------------------------------------------------------------
// the implementation side
// ------------------------------------------------------------------------------------------

type Log = RaftLog<Store>;

fn new_log() -> Log {
    let store = Store::new(ConfState::default());
    let logger = slog::Logger::root(slog::Discard, slog::o!());
    RaftLog::new(store, logger, &Config::new(1))
}

/// Applies `op` to the real RaftLog exactly the way Raft / RawNode / the application would.
/// `before` is only consulted for harness bookkeeping (the ready records).
fn apply_impl(log: &mut Log, op: &Op, before: &Model) -> Ret {
    match *op {
        Op::Append { k, t } => {
            let last = log.last_index();
            let ents = [mk_entry(last + 1, t as u64), mk_entry(last + 2, t as u64)];
            Ret::U64(log.append(&ents[..k as usize]))
        }
        Op::MaybeAppend { pi, pt, c, n, ts } => {
            let ents = [mk_entry(pi as u64 + 1, ts[0] as u64), mk_entry(pi as u64 + 2, ts[1] as u64)];
            Ret::OptPair(log.maybe_append(pi as u64, pt as u64, c as u64, &ents[..n as usize]))
        }
        Op::CommitTo(i) => {
            log.commit_to(i as u64);
            Ret::Unit
        }
        Op::MaybeCommit(i, t) => Ret::Bool(log.maybe_commit(i as u64, t as u64)),
        Op::Ready => {
            // RawNode::ready
            let snap = log.unstable_snapshot().clone();
            let ents = log.unstable_entries().to_vec();
            // the application writes snapshot, then entries
            if let Some(s) = &snap {
                log.mut_store().apply_op(&WriteOp::Snapshot(s.clone()));
            }
            if !ents.is_empty() {
                log.mut_store().apply_op(&WriteOp::Entries(ents.clone()));
            }
            // RawNode::commit_ready
            if let Some(s) = &snap {
                log.stable_snap(s.get_metadata().index);
            }
            if let Some(e) = ents.last() {
                log.stable_entries(e.index, e.term);
            }
            Ret::Ready(
                snap.map(|s| (s.get_metadata().index, s.get_metadata().term)),
                ents,
            )
        }
        Op::Persist(k) => {
            // RawNode::on_persist_ready
            let (snap_index, index, term) = Model::fold(&before.queue.as_slice()[..k as usize]);
            let mut rs = None;
            let mut re = None;
            if snap_index != 0 {
                rs = Some(log.maybe_persist_snap(snap_index));
            }
            if index != 0 {
                re = Some(log.maybe_persist(index, term));
            }
            Ret::Persist(rs, re)
        }
        Op::Restore(i, t) => {
            log.restore(mk_snapshot(i as u64, t as u64));
            Ret::Unit
        }
        Op::AppliedTo(i) => {
            #[allow(deprecated)]
            log.applied_to(i as u64);
            Ret::Unit
        }
        Op::Compact(i) => {
            log.mut_store().apply_op(&WriteOp::Compact(i as u64));
            Ret::Unit
        }
    }
}

/// Stack buffer for the canonical serialisation (values are tiny; large ones are escaped).
struct KB {
    buf: [u8; 512],
    n: usize,
}

impl KB {
    #[inline(always)]
    fn u(&mut self, v: u64) {
        if v < 0xfe && self.n < 500 {
            self.buf[self.n] = v as u8;
            self.n += 1;
        } else if self.n < 500 {
            self.buf[self.n] = 0xff;
            self.buf[self.n + 1..self.n + 9].copy_from_slice(&v.to_le_bytes());
            self.n += 9;
        } else {
            // overflow (never with the bounds in use): fold into the last word
            let mut x = [0u8; 8];
            x.copy_from_slice(&self.buf[504..512]);
            let y = crate::util::mix(u64::from_le_bytes(x), v);
            self.buf[504..512].copy_from_slice(&y.to_le_bytes());
        }
    }
    #[inline]
    fn entry(&mut self, e: &Entry) {
        self.u(e.index);
        self.u(e.term);
        let (ty, dl, cl) = (e.get_entry_type() as u64, e.data.len() as u64, e.context.len() as u64);
        if ty < 4 && dl < 8 && cl < 4 {
            self.u((ty << 5) | (dl << 2) | cl); // < 128
        } else {
            self.u(0xfd);
            self.u(ty);
            self.u(dl);
            self.u(cl);
        }
        for x in e.data.iter() {
            self.u(*x as u64);
        }
        for x in e.context.iter() {
            self.u(*x as u64);
        }
    }
    fn cs(&mut self, c: &ConfState) {
        for v in [c.get_voters(), c.get_learners(), c.get_voters_outgoing(), c.get_learners_next()] {
            self.u(v.len() as u64);
            for x in v {
                self.u(*x);
            }
        }
        self.u(c.auto_leave as u64);
    }
    fn key(&self) -> u128 {
        // two lanes of multiply-fold (128-bit product folded to 64 bits) over 8-byte words
        #[inline(always)]
        fn fold(x: u64, y: u64) -> u64 {
            let p = (x as u128).wrapping_mul(y as u128);
            (p as u64) ^ ((p >> 64) as u64)
        }
        let mut a = 0x9e3779b97f4a7c15u64 ^ self.n as u64;
        let mut b = 0xbf58476d1ce4e5b9u64;
        let end = if self.n > 500 { 512 } else { self.n };
        let mut p = 0;
        while p < end {
            let mut x = [0u8; 8];
            let l = (end - p).min(8);
            x[..l].copy_from_slice(&self.buf[p..p + l]);
            let v = u64::from_le_bytes(x);
            a = fold(a ^ v, 0xa0761d6478bd642f);
            b = fold(b.rotate_left(23) ^ v, 0xe7037ed1a0b428db).wrapping_add(a);
            p += 8;
        }
        a = crate::util::mix(a, b);
        b = crate::util::mix(b, a);
        ((a as u128) << 64) | b as u128
    }
}

/// Canonical key of L: every RaftLog field (store and unstable included) and the model of
/// the log and of the storage.  The full pair is (this key, the ready records), see `pkey`.
fn lkey_of(log: &Log, m: &Model) -> u128 {
    let mut w = KB { buf: [0; 512], n: 0 };
    w.u(log.committed);
    w.u(log.persisted);
    w.u(log.applied);
    w.u(log.max_apply_unpersisted_log_limit);
    w.u(log.unstable.offset);
    w.u(log.unstable.entries_size as u64);
    w.u(log.unstable.entries.len() as u64);
    for e in &log.unstable.entries {
        w.entry(e);
    }
    match &log.unstable.snapshot {
        Some(s) => {
            w.u(1);
            let md = s.get_metadata();
            w.u(md.index);
            w.u(md.term);
            w.cs(md.get_conf_state());
            w.u(s.data.len() as u64);
            for x in s.data.iter() {
                w.u(*x as u64);
            }
        }
        None => w.u(0),
    }
    let s = &log.store;
    w.u(s.hs.term);
    w.u(s.hs.vote);
    w.u(s.hs.commit);
    w.u(s.snap_index);
    w.u(s.snap_term);
    w.u(s.entries.len() as u64);
    for e in &s.entries {
        w.entry(e);
    }
    w.u(s.app.applied);
    w.cs(&s.app.conf);
    w.u(s.app.sm);
    w.u(s.log_unavailable_once.get() as u64);
    // model
    w.u(0xee);
    w.u(m.snap_i);
    w.u(m.snap_t);
    w.u(m.ents.len() as u64);
    for t in m.ents.as_slice() {
        w.u(*t);
    }
    w.u(m.offset);
    w.u(m.pending_snap as u64);
    w.u(m.committed);
    w.u(m.persisted);
    w.u(m.applied);
    w.u(m.st_snap_i);
    w.u(m.st_snap_t);
    w.u(m.st_ents.len() as u64);
    for t in m.st_ents.as_slice() {
        w.u(*t);
    }
    w.key()
}

fn describe(log: &Log) -> String {
    let st: Vec<String> = log.store.entries.iter().map(|e| format!("{}:{}", e.index, e.term)).collect();
    let un: Vec<String> = log.unstable.entries.iter().map(|e| format!("{}:{}", e.index, e.term)).collect();
    format!(
        "impl{{committed={} persisted={} applied={} offset={} unstable=[{}] unstable_snap={:?} store{{dummy={}:{} ents=[{}]}}}}",
        log.committed,
        log.persisted,
        log.applied,
        log.unstable.offset,
        un.join(","),
        log.unstable.snapshot.as_ref().map(|s| (s.get_metadata().index, s.get_metadata().term)),
        log.store.snap_index,
        log.store.snap_term,
        st.join(","),
    )
}

fn describe_model(m: &Model) -> String {
    format!(
        "model{{dummy={}:{} terms={:?} offset={} pending_snap={} committed={} persisted={} applied={} storage{{dummy={}:{} terms={:?}}} records={:?}}}",
        m.snap_i, m.snap_t, m.ents, m.offset, m.pending_snap, m.committed, m.persisted, m.applied,
        m.st_snap_i, m.st_snap_t, m.st_ents, m.queue
    )
}

type Viol = (String, String);

fn is_compacted<T>(r: &Result<T, Error>) -> bool {
    matches!(r, Err(Error::Store(StorageError::Compacted)))
}

/// Compares every observer of `log` with the model and evaluates the state invariants.
/// Must be called inside `guarded`.
fn observe(log: &mut Log, m: &Model, b: &Bounds, st: &mut Stats) -> Result<(), Viol> {
    let r = observe_inner(log, m, b, st);
    log.max_apply_unpersisted_log_limit = 0;
    r
}

fn observe_inner(log: &mut Log, m: &Model, b: &Bounds, st: &mut Stats) -> Result<(), Viol> {
    macro_rules! bad {
        ($k:expr, $($a:tt)*) => {
            return Err((format!("observer-mismatch:{}", $k), format!($($a)*)))
        };
    }
    macro_rules! inv {
        ($k:expr, $($a:tt)*) => {
            return Err((format!("invariant:{}", $k), format!($($a)*)))
        };
    }
    if let Some(e) = m.self_check() {
        return Err(("model-self-check".into(), e));
    }
    let first = m.first();
    let last = m.last();
    let ctx = || GetEntriesContext::empty(false);

    // ---- plain fields
    if log.committed != m.committed {
        bad!("committed", "committed {} expected {}", log.committed, m.committed);
    }
    if log.persisted != m.persisted {
        bad!("persisted", "persisted {} expected {}", log.persisted, m.persisted);
    }
    if log.applied != m.applied || log.applied() != m.applied {
        bad!("applied", "applied {} expected {}", log.applied, m.applied);
    }
    if log.unstable.offset != m.offset {
        bad!("unstable-offset", "unstable.offset {} expected {}", log.unstable.offset, m.offset);
    }
    // ---- index / term observers
    if log.first_index() != first {
        bad!("first_index", "first_index {} expected {}", log.first_index(), first);
    }
    if log.last_index() != last {
        bad!("last_index", "last_index {} expected {}", log.last_index(), last);
    }
    for i in 0..=last + 2 {
        match log.term(i) {
            Ok(t) if t == m.term(i) => {}
            other => bad!("term", "term({}) = {:?} expected Ok({})", i, other, m.term(i)),
        }
    }
    if log.last_term() != m.term(last) {
        bad!("last_term", "last_term {} expected {}", log.last_term(), m.term(last));
    }
    for i in 0..=last + 2 {
        for t in 0..=b.t {
            let e = m.term(i) == t;
            if log.match_term(i, t) != e {
                bad!("match_term", "match_term({}, {}) = {} expected {}", i, t, !e, e);
            }
        }
    }
    let mlt = m.term(last);
    for i in 0..=b.n + 1 {
        for t in 0..=b.t {
            let e = t > mlt || (t == mlt && i >= last);
            if log.is_up_to_date(i, t) != e {
                bad!("is_up_to_date", "is_up_to_date({}, {}) = {} expected {}", i, t, !e, e);
            }
        }
    }
    let ci = log.commit_info();
    if ci != (m.committed, m.term(m.committed)) {
        bad!("commit_info", "commit_info {:?} expected {:?}", ci, (m.committed, m.term(m.committed)));
    }

    // ---- the unstable part
    let all: Vec<Entry> = (first..=last).map(|i| mk_entry(i, m.term(i))).collect();
    let sizes: Vec<u64> = (first..=last).map(|i| esize(i, m.term(i))).collect();
    let un_exp = &all[(m.offset - first) as usize..];
    if log.unstable_entries() != un_exp {
        bad!("unstable_entries", "unstable_entries {:?} expected {:?}", brief(log.unstable_entries()), brief(un_exp));
    }
    let us = log.unstable_snapshot().as_ref().map(|s| (s.get_metadata().index, s.get_metadata().term));
    let us_exp = if m.pending_snap { Some((m.snap_i, m.snap_t)) } else { None };
    if us != us_exp {
        bad!("unstable_snapshot", "unstable_snapshot {:?} expected {:?}", us, us_exp);
    }
    {
        let u = &log.unstable;
        let e_first = if m.pending_snap { Some(m.snap_i + 1) } else { None };
        if u.maybe_first_index() != e_first {
            bad!("unstable.maybe_first_index", "{:?} expected {:?}", u.maybe_first_index(), e_first);
        }
        let e_last = if !un_exp.is_empty() {
            Some(last)
        } else if m.pending_snap {
            Some(m.snap_i)
        } else {
            None
        };
        if u.maybe_last_index() != e_last {
            bad!("unstable.maybe_last_index", "{:?} expected {:?}", u.maybe_last_index(), e_last);
        }
        for i in 0..=last + 2 {
            let e = if i >= m.offset {
                if i <= last {
                    Some(m.term(i))
                } else {
                    None
                }
            } else if m.pending_snap && i == m.snap_i {
                Some(m.snap_t)
            } else {
                None
            };
            if u.maybe_term(i) != e {
                bad!("unstable.maybe_term", "unstable.maybe_term({}) = {:?} expected {:?} (offset {})", i, u.maybe_term(i), e, m.offset);
            }
        }
        for lo in m.offset..=last + 1 {
            for hi in lo..=last + 1 {
                let e = &all[(lo - first) as usize..(hi - first) as usize];
                if u.slice(lo, hi) != e {
                    bad!("unstable.slice", "unstable.slice({}, {}) = {:?} expected {:?}", lo, hi, brief(u.slice(lo, hi)), brief(e));
                }
            }
        }
        let sz: usize = u.entries.iter().map(raft::util::entry_approximate_size).sum();
        if u.entries_size != sz {
            inv!("unstable-entries-size", "unstable.entries_size {} but the entries sum to {}", u.entries_size, sz);
        }
    }

    // ---- storage content as the model of the storage predicts it
    {
        let s = &log.store;
        let got: Vec<u64> = s.entries.iter().map(|e| e.term).collect();
        if s.snap_index != m.st_snap_i || s.snap_term != m.st_snap_t || got != m.st_ents.as_slice() {
            bad!(
                "storage-content",
                "storage dummy {}:{} terms {:?}, expected dummy {}:{} terms {:?}",
                s.snap_index, s.snap_term, got, m.st_snap_i, m.st_snap_t, m.st_ents
            );
        }
        for (p, e) in s.entries.iter().enumerate() {
            let want = mk_entry(s.snap_index + 1 + p as u64, m.st_ents.a[p]);
            if *e != want {
                bad!("storage-content", "storage entry {:?} expected {:?}", brief(std::slice::from_ref(e)), brief(&[want]));
            }
        }
    }

    // ---- snapshot(): a pending snapshot that is recent enough is served from unstable
    for req in 0..=last + 1 {
        match log.snapshot(req, 0) {
            Ok(sn) => {
                let got = (sn.get_metadata().index, sn.get_metadata().term);
                if m.pending_snap && m.snap_i >= req {
                    if got != (m.snap_i, m.snap_t) {
                        bad!("snapshot", "snapshot({}) = {:?} expected the pending snapshot {:?}", req, got, (m.snap_i, m.snap_t));
                    }
                } else if got.0 < req {
                    bad!("snapshot", "snapshot({}) returned the older snapshot {:?}", req, got);
                }
            }
            Err(e) => {
                if m.pending_snap && m.snap_i >= req {
                    bad!("snapshot", "snapshot({}) = Err({:?}) expected the pending snapshot {:?}", req, e, (m.snap_i, m.snap_t));
                }
            }
        }
    }
    if log.all_entries() != all {
        bad!("all_entries", "all_entries {:?} expected {:?}", brief(&log.all_entries()), brief(&all));
    }

    // ---- slice / entries, every range x limit
    for lo in 0..=last + 1 {
        if lo < first {
            for hi in [lo, last + 1] {
                let r = log.slice(lo, hi, None, ctx());
                if !is_compacted(&r) {
                    bad!("slice-compacted", "slice({}, {}) below first_index {} = {:?} expected Err(Compacted)", lo, hi, first, r.map(|v| brief(&v)));
                }
                st[S_COMPACTED_ERR] += 1;
            }
            let r = log.entries(lo, None, ctx());
            let want_compacted = lo <= last; // idx > last is answered with an empty vector first
            if want_compacted && !is_compacted(&r) {
                bad!("entries-compacted", "entries({}) below first_index {} = {:?} expected Err(Compacted)", lo, first, r.map(|v| brief(&v)));
            }
            if !want_compacted && !matches!(&r, Ok(v) if v.is_empty()) {
                bad!("entries", "entries({}) beyond last {} = {:?} expected empty", lo, last, r.map(|v| brief(&v)));
            }
            continue;
        }
        for hi in lo..=last + 1 {
            let full = &all[(lo - first) as usize..(hi - first) as usize];
            let sz = &sizes[(lo - first) as usize..(hi - first) as usize];
            let mut lims: Vec<Option<u64>> = vec![None];
            if !full.is_empty() {
                lims.push(Some(0));
                lims.push(Some(sz[0]));
                if sz.len() >= 2 {
                    lims.push(Some(sz[0] + sz[1] - 1));
                    lims.push(Some(sz[0] + sz[1]));
                }
                lims.push(Some(u64::MAX));
            }
            for lim in lims {
                let n = prefix_len(sz, lim);
                let exp = &full[..n];
                match log.slice(lo, hi, lim, ctx()) {
                    Ok(v) if v == exp => {}
                    other => bad!(
                        "slice",
                        "slice({}, {}, {:?}) = {:?} expected {:?} (offset {}, first {})",
                        lo, hi, lim, other.map(|v| brief(&v)), brief(exp), m.offset, first
                    ),
                }
                if n < full.len() {
                    st[S_LIMITED] += 1;
                }
                if lo < m.offset && hi > m.offset {
                    if lo + n as u64 > m.offset {
                        st[S_STITCHED] += 1;
                    } else if n < full.len() {
                        st[S_SHORT_PAGE] += 1;
                    }
                }
                if hi == last + 1 {
                    match log.entries(lo, lim, ctx()) {
                        Ok(v) if v == exp => {}
                        other => bad!(
                            "entries",
                            "entries({}, {:?}) = {:?} expected {:?}",
                            lo, lim, other.map(|v| brief(&v)), brief(exp)
                        ),
                    }
                }
            }
        }
    }
    match log.entries(last + 2, None, ctx()) {
        Ok(v) if v.is_empty() => {}
        other => bad!("entries", "entries({}) beyond last = {:?} expected empty", last + 2, other.map(|v| brief(&v))),
    }

    // ---- conflict search
    for s in 1..=last + 1 {
        for t1 in 1..=b.t {
            for t2 in 0..=b.t {
                // t2 == 0: one-entry probe; otherwise two entries (any order of terms)
                let terms: Vec<u64> = if t2 == 0 { vec![t1] } else { vec![t1, t2] };
                let probe: Vec<Entry> = terms.iter().enumerate().map(|(p, t)| mk_entry(s + p as u64, *t)).collect();
                let e = m.find_conflict(s, &terms);
                let g = log.find_conflict(&probe);
                if g != e {
                    bad!("find_conflict", "find_conflict({:?}) = {} expected {}", brief(&probe), g, e);
                }
            }
        }
    }
    if log.find_conflict(&[]) != 0 {
        bad!("find_conflict", "find_conflict([]) != 0");
    }
    for i in 0..=last {
        for t in 0..=b.t {
            // largest j <= i with term(j) <= t over the total term function (0 outside the log)
            let mut j = i;
            while m.term(j) > t {
                j -= 1; // term(0) is 0 or the dummy's own term only if the dummy is 0:0
            }
            let e = (j, Some(m.term(j)));
            let g = log.find_conflict_by_term(i, t);
            if g != e {
                bad!("find_conflict_by_term", "find_conflict_by_term({}, {}) = {:?} expected {:?}", i, t, g, e);
            }
            if j + 1 < first {
                st[S_FCBT_BELOW_DUMMY] += 1;
            }
        }
    }
    for i in last + 1..=last + 2 {
        let g = log.find_conflict_by_term(i, 1);
        if g != (i, None) {
            bad!("find_conflict_by_term", "find_conflict_by_term({}, 1) beyond last = {:?} expected ({}, None)", i, g, i);
        }
    }

    // ---- entries for the application: committed and persisted (+limit), after since
    for extra in [0u64, 1, 100] {
        log.max_apply_unpersisted_log_limit = extra;
        let l: &Log = log;
        let upper = m.committed.min(m.persisted + extra);
        for since in 0..=last + 1 {
            let lo = (since + 1).max(first);
            let hi = upper + 1;
            let has = hi > lo;
            if l.has_next_entries_since(since) != has {
                bad!("has_next_entries_since", "has_next_entries_since({}) = {} expected {} (limit {})", since, !has, has, extra);
            }
            let lims: Vec<Option<u64>> = if has {
                let s0 = sizes[(lo - first) as usize];
                vec![None, Some(0), Some(s0), Some(s0 + 4), Some(u64::MAX)]
            } else {
                vec![None]
            };
            for lim in lims {
                let g = l.next_entries_since(since, lim);
                if has {
                    let full = &all[(lo - first) as usize..(hi - first) as usize];
                    let n = prefix_len(&sizes[(lo - first) as usize..(hi - first) as usize], lim);
                    if g.as_deref() != Some(&full[..n]) {
                        bad!("next_entries_since", "next_entries_since({}, {:?}) = {:?} expected {:?} (limit {})", since, lim, g.map(|v| brief(&v)), brief(&full[..n]), extra);
                    }
                } else if g.is_some() {
                    bad!("next_entries_since", "next_entries_since({}, {:?}) = {:?} expected None (limit {})", since, lim, g.map(|v| brief(&v)), extra);
                }
            }
        }
        let lo = (m.applied + 1).max(first);
        let has = upper + 1 > lo;
        if l.has_next_entries() != has {
            bad!("has_next_entries", "has_next_entries = {} expected {} (limit {})", !has, has, extra);
        }
        let g = l.next_entries(None);
        let e = if has { Some(&all[(lo - first) as usize..(upper + 1 - first) as usize]) } else { None };
        if g.as_deref() != e {
            bad!("next_entries", "next_entries = {:?} expected {:?} (limit {})", g.map(|v| brief(&v)), e.map(brief), extra);
        }
    }

    log.max_apply_unpersisted_log_limit = 0;
    // ---- invariants of the property, on the implementation
    if !(log.applied <= log.committed && log.committed <= log.last_index()) {
        inv!("applied-le-committed-le-last", "applied {} committed {} last {}", log.applied, log.committed, log.last_index());
    }
    if log.applied > log.persisted {
        inv!("applied-le-persisted", "applied {} > persisted {} with max_apply_unpersisted_log_limit = 0", log.applied, log.persisted);
    }
    if log.persisted >= log.unstable.offset {
        inv!("persisted-lt-offset", "persisted {} >= unstable.offset {}", log.persisted, log.unstable.offset);
    }
    let sl = log.store.last_index().unwrap();
    if log.persisted > sl {
        inv!("persisted-le-storage-last", "persisted {} > storage last index {}", log.persisted, sl);
    }
    if log.persisted + 1 >= log.first_index() {
        let a = log.store.term(log.persisted).ok();
        let bt = log.term(log.persisted).ok();
        if a.is_none() || a != bt {
            inv!("persisted-term-in-storage", "storage term at persisted {} is {:?}, the log's is {:?}", log.persisted, a, bt);
        }
    }
    for (p, e) in log.unstable.entries.iter().enumerate() {
        if e.index != log.unstable.offset + p as u64 {
            inv!("unstable-contiguous", "unstable entry {} at position {} with offset {}", e.index, p, log.unstable.offset);
        }
    }
    Ok(())
}

fn brief(v: &[Entry]) -> Vec<String> {
    v.iter().map(|e| format!("{}:{}/{}", e.index, e.term, e.data.len())).collect()
}

/// (term, payload) of every index 0..=committed as the implementation reports it.
fn committed_prefix(log: &Log) -> Vec<Option<u64>> {
    let dummy = log.first_index() - 1;
    (0..=log.committed)
        .map(|i| if i < dummy { None } else { log.term(i).ok() })
        .collect()
}

/// One transition on a fresh pair: implementation under `guarded`, model, return values,
/// transition invariants.  Returns the successor or the violation.
fn step(
    log: &Log,
    m: &Model,
    op: &Op,
    pre_prefix: &[Option<u64>],
    st: &mut Stats,
) -> Result<(Log, Model), Viol> {
    let mut m2 = *m;
    let exp = apply_model(&mut m2, op, st);
    step_with(log, m, op, pre_prefix, m2, exp)
}

fn step_with(
    log: &Log,
    m: &Model,
    op: &Op,
    pre_prefix: &[Option<u64>],
    m2: Model,
    exp: Ret,
) -> Result<(Log, Model), Viol> {
    let mut l2 = log.clone();
    let got = match guarded(|| apply_impl(&mut l2, op, m)) {
        Ok(r) => r,
        Err((msg, loc)) => {
            return Err((
                format!("panic:{}", op.name()),
                format!("{:?} panicked: {} @ {}", op, msg, loc),
            ))
        }
    };
    if got != exp {
        return Err((
            format!("return-mismatch:{}", op.name()),
            format!("{:?} returned {} expected {}", op, show_ret(&got), show_ret(&exp)),
        ));
    }
    if l2.committed < log.committed {
        return Err((
            "invariant:committed-decreased".into(),
            format!("{:?}: committed {} -> {}", op, log.committed, l2.committed),
        ));
    }
    let changed = guarded(|| {
        let dummy = l2.first_index() - 1;
        for (i, a) in pre_prefix.iter().enumerate() {
            let i = i as u64;
            if i < dummy {
                continue;
            }
            if let (Some(a), Ok(bq)) = (a, l2.term(i)) {
                if *a != bq {
                    return Some((i, *a, bq));
                }
            }
        }
        None
    });
    match changed {
        Ok(None) => {}
        Ok(Some((i, a, bq))) => {
            return Err((
                "invariant:committed-entry-changed".into(),
                format!("{:?}: entry {} at or below committed {} changed term {} -> {}", op, i, log.committed, a, bq),
            ))
        }
        Err((msg, loc)) => {
            return Err((format!("panic:{}", op.name()), format!("term() after {:?} panicked: {} @ {}", op, msg, loc)))
        }
    }
    Ok((l2, m2))
}

fn show_ret(r: &Ret) -> String {
    match r {
        Ret::Ready(s, e) => format!("Ready(snapshot {:?}, entries {:?})", s, brief(e)),
        other => format!("{:?}", other),
    }
}

// ------------------------------------------------------------------------------------------
// exploration
// ------------------------------------------------------------------------------------------
//
// A pair is (L, Q): L = (RaftLog state, model of the log and of the storage), Q = the FIFO of
// ready records awaiting `on_persist_ready`.  Q lives in the harness only — RaftLog never
// sees it; it merely determines which `maybe_persist_snap` / `maybe_persist` arguments can
// still arrive.  The search is a level-synchronous BFS over all pairs (L, Q); the real code
// is executed once per (L, operation-with-arguments) and the outcome (successor L', checked
// return value, checked transition invariants) is reused for every Q that L is paired with.
// RaftLog operations are functions of (RaftLog state, arguments) (re-validated at the end by
// re-executing recorded paths from the initial pair), so this enumerates exactly the pairs
// and transitions of the plain product search.

/// The record FIFO in 32 bits: per record [snap index, snap term, last index, last term]
/// (index 0 = absent), 3 + 2 bits each pair.
#[derive(Clone, Copy, PartialEq, Eq, Debug, Default)]
struct Q {
    len: u8,
    r: [[u8; 4]; 3],
}

impl Q {
    fn to_sv(&self) -> SV<Rec, 4> {
        let mut v = SV::new();
        for k in 0..self.len as usize {
            let r = self.r[k];
            v.push(Rec {
                snap: if r[0] != 0 { Some((r[0] as u64, r[1] as u64)) } else { None },
                last: if r[2] != 0 { Some((r[2] as u64, r[3] as u64)) } else { None },
            });
        }
        v
    }
    fn from_sv(v: &SV<Rec, 4>) -> Q {
        let mut q = Q::default();
        for r in v.as_slice() {
            let (a, b) = r.snap.unwrap_or((0, 0));
            let (c, d) = r.last.unwrap_or((0, 0));
            q.r[q.len as usize] = [a as u8, b as u8, c as u8, d as u8];
            q.len += 1;
        }
        q
    }
    fn bits(&self) -> u32 {
        let mut x = self.len as u32;
        for k in 0..3 {
            let r = self.r[k];
            x = (x << 10) | ((r[0] as u32) << 7) | ((r[1] as u32) << 5) | ((r[2] as u32) << 2) | r[3] as u32;
        }
        x
    }
    fn from_bits(mut x: u32) -> Q {
        let mut q = Q::default();
        for k in (0..3).rev() {
            q.r[k] = [((x >> 7) & 7) as u8, ((x >> 5) & 3) as u8, ((x >> 2) & 7) as u8, (x & 3) as u8];
            x >>= 10;
        }
        q.len = x as u8;
        q
    }
    fn pop_front(&self, k: usize) -> Q {
        let mut q = Q::default();
        for j in k..self.len as usize {
            q.r[q.len as usize] = self.r[j];
            q.len += 1;
        }
        q
    }
    fn push(&self, rec: [u8; 4]) -> Q {
        let mut q = *self;
        q.r[q.len as usize] = rec;
        q.len += 1;
        q
    }
}

/// A pair (L, Q) in 64 bits, exactly.
#[inline]
fn pkey(lid: u32, q: &Q) -> u64 {
    ((lid as u64) << 32) | q.bits() as u64
}

#[inline]
fn unpkey(k: u64) -> (u32, Q) {
    ((k >> 32) as u32, Q::from_bits(k as u32))
}

const LAZY_READY: u32 = u32::MAX;

/// Code of a queue-dependent operation on L: Ready, or the folded on_persist_ready arguments.
#[inline]
fn lazy_code(snap_index: u64, index: u64, term: u64) -> u32 {
    ((snap_index as u32) << 16) | ((index as u32) << 8) | term as u32
}

/// `RaftLog<Store>` is not `Sync` only because `sim::Store` keeps two `Cell`s for the
/// async-fetch simulation.  This engine never arms that simulation, so the cells are never
/// written; shared references are used for reading and cloning only.
struct Shared(Log);
unsafe impl Sync for Shared {}
impl std::ops::Deref for Shared {
    type Target = Log;
    fn deref(&self) -> &Log {
        &self.0
    }
}

struct LNode {
    log: Shared,
    /// model with an empty record queue
    m: Model,
    /// distinct successors (other than itself) under the queue-independent operations, with
    /// the first operation leading there
    succ: Vec<(Op, u32)>,
    expanded: bool,
}

struct Interner {
    shards: Vec<Mutex<std::collections::HashMap<u128, u32>>>,
    next: std::sync::atomic::AtomicU32,
}

const SHARDS: usize = 1024;

impl Interner {
    fn new() -> Interner {
        Interner {
            shards: (0..SHARDS).map(|_| Mutex::new(std::collections::HashMap::new())).collect(),
            next: std::sync::atomic::AtomicU32::new(0),
        }
    }
    /// (id, newly created)
    fn intern(&self, k: u128) -> (u32, bool) {
        let mut s = self.shards[(k as usize) % SHARDS].lock().unwrap();
        if let Some(id) = s.get(&k) {
            return (*id, false);
        }
        let id = self.next.fetch_add(1, Ordering::Relaxed);
        s.insert(k, id);
        (id, true)
    }
    fn get(&self, k: u128) -> Option<u32> {
        self.shards[(k as usize) % SHARDS].lock().unwrap().get(&k).copied()
    }
    fn len(&self) -> usize {
        self.next.load(Ordering::Relaxed) as usize
    }
}

struct PSeen {
    shards: Vec<Mutex<HashSet<u64>>>,
}

impl PSeen {
    fn new() -> PSeen {
        PSeen { shards: (0..SHARDS).map(|_| Mutex::new(HashSet::new())).collect() }
    }
    fn insert(&self, k: u64) -> bool {
        let h = crate::util::mix(k, 0x51ed27) as usize;
        self.shards[h % SHARDS].lock().unwrap().insert(k)
    }
}

struct Found {
    kind: String,
    detail: String,
    /// product state in which the operation was executed
    pid: u32,
    op: Op,
}

#[derive(Default)]
struct ExecOut {
    /// (id, node) of the L pairs first reached here
    new_nodes: Vec<(u32, LNode)>,
    found: Vec<Found>,
    stats: Stats,
    executed: u64,
    noops: u64,
    /// eager expansions: (lid, successors)
    succs: Vec<(u32, Vec<(Op, u32)>)>,
    /// lazy results: (memo key, successor lid)
    lazy: Vec<(u64, u32)>,
}

/// Registers the outcome of one real execution: interns the successor, observes it if new.
fn settle(
    r: Result<(Log, Model), Viol>,
    pid: u32,
    op: &Op,
    b: &Bounds,
    interner: &Interner,
    out: &mut ExecOut,
) -> Option<u32> {
    match r {
        Err((kind, detail)) => {
            out.found.push(Found { kind, detail, pid, op: *op });
            None
        }
        Ok((mut l2, mut m2)) => {
            m2.queue.clear();
            let lkey = lkey_of(&l2, &m2);
            let (lid, new) = interner.intern(lkey);
            if new {
                match guarded(|| observe(&mut l2, &m2, b, &mut out.stats)) {
                    Ok(Ok(())) => {}
                    Ok(Err((kind, detail))) => out.found.push(Found {
                        kind,
                        detail: format!("after {:?}: {} | {} | {}", op, detail, describe(&l2), describe_model(&m2)),
                        pid,
                        op: *op,
                    }),
                    Err((msg, loc)) => out.found.push(Found {
                        kind: "panic:observer".into(),
                        detail: format!("an observer panicked after {:?}: {} @ {} | {}", op, msg, loc, describe(&l2)),
                        pid,
                        op: *op,
                    }),
                }
                out.new_nodes.push((lid, LNode { log: Shared(l2), m: m2, succ: vec![], expanded: false }));
            }
            Some(lid)
        }
    }
}

/// Executes every queue-independent operation enabled in L on the real code.
fn expand_l(lid: u32, node: &LNode, pid: u32, b: &Bounds, interner: &Interner, out: &mut ExecOut, rot: usize) {
    let mut ops = enabled_ops(&node.m, b, &mut out.stats);
    ops.retain(|o| !matches!(o, Op::Ready | Op::Persist(_)));
    if rot > 0 && !ops.is_empty() {
        let r = rot % ops.len();
        ops.rotate_left(r);
    }
    let pre_prefix = guarded(|| committed_prefix(&node.log)).unwrap_or_default();
    let node_key = lkey_of(&node.log, &node.m);
    // Operations the model predicts to leave the pair unchanged are run one after the other
    // on one scratch copy (each still is an execution of the real code from a state equal to
    // this one); any anomaly there re-runs all of them individually for an exact report.
    let mut scratch: Option<Log> = None;
    let mut scratch_bad = false;
    let mut noops: Vec<Op> = vec![];
    let mut succ: Vec<(Op, u32)> = vec![];
    let add = |op: &Op, l2: Option<u32>, succ: &mut Vec<(Op, u32)>| {
        if let Some(l2) = l2 {
            if l2 != lid && !succ.iter().any(|(_, x)| *x == l2) {
                succ.push((*op, l2));
            }
        }
    };
    for op in ops.iter() {
        let mut probe = node.m;
        let exp = apply_model(&mut probe, op, &mut out.stats);
        out.executed += 1;
        if probe == node.m {
            out.noops += 1;
            noops.push(*op);
            if scratch_bad {
                continue;
            }
            let sc = scratch.get_or_insert_with(|| node.log.clone());
            match guarded(|| apply_impl(sc, op, &node.m)) {
                Ok(r) if r == exp => {}
                _ => scratch_bad = true,
            }
            continue;
        }
        let r = step_with(&node.log, &node.m, op, &pre_prefix, probe, exp);
        let l2 = settle(r, pid, op, b, interner, out);
        add(op, l2, &mut succ);
    }
    if let Some(sc) = &scratch {
        if !scratch_bad && lkey_of(sc, &node.m) != node_key {
            scratch_bad = true;
        }
    }
    if scratch_bad {
        for op in noops {
            let r = step(&node.log, &node.m, &op, &pre_prefix, &mut out.stats);
            let l2 = settle(r, pid, &op, b, interner, out);
            add(&op, l2, &mut succ);
        }
    }
    out.succs.push((lid, succ));
}

/// The ready record RawNode would push for L.
fn ready_rec(m: &Model) -> Option<[u8; 4]> {
    let last = m.last();
    if !(m.pending_snap || m.offset <= last) {
        return None;
    }
    let mut r = [0u8; 4];
    if m.pending_snap {
        r[0] = m.snap_i as u8;
        r[1] = m.snap_t as u8;
    }
    if m.offset <= last {
        r[2] = last as u8;
        r[3] = m.term(last) as u8;
    }
    Some(r)
}

/// Queue-dependent operations enabled in (L, Q): (operation, memo code, successor queue).
fn lazy_ops(m: &Model, q: &Q, b: &Bounds, blocked: &mut u64, f: &mut dyn FnMut(Op, u32, Q)) {
    if (q.len as usize) < b.q {
        if let Some(rec) = ready_rec(m) {
            f(Op::Ready, LAZY_READY, q.push(rec));
        }
    }
    if q.len > 0 {
        let sv = q.to_sv();
        for k in 1..=q.len as usize {
            let (snap_index, index, term) = Model::fold(&sv.as_slice()[..k]);
            if snap_index > m.persisted && (snap_index > m.committed || snap_index >= m.offset) {
                // documented fatal of maybe_persist_snap; unreachable under the legal orders
                *blocked += 1;
                continue;
            }
            f(Op::Persist(k as u8), lazy_code(snap_index, index, term), q.pop_front(k));
        }
    }
}

/// Runs `work(index, out)` for every index in 0..n on `threads` threads, dynamic chunks.
fn par_for<T: Send + Default>(
    n: usize,
    chunk: usize,
    threads: usize,
    stop: &AtomicBool,
    work: &(dyn Fn(std::ops::Range<usize>, &mut T) + Sync),
) -> Vec<T> {
    let next = std::sync::atomic::AtomicUsize::new(0);
    let mut outs: Vec<(usize, T)> = std::thread::scope(|s| {
        let hs: Vec<_> = (0..threads.min(n.div_ceil(chunk)).max(1))
            .map(|_| {
                s.spawn(|| {
                    let mut res: Vec<(usize, T)> = vec![];
                    loop {
                        if stop.load(Ordering::Relaxed) {
                            break;
                        }
                        let lo = next.fetch_add(chunk, Ordering::Relaxed);
                        if lo >= n {
                            break;
                        }
                        let mut out = T::default();
                        work(lo..(lo + chunk).min(n), &mut out);
                        res.push((lo, out));
                    }
                    res
                })
            })
            .collect();
        hs.into_iter().flat_map(|h| h.join().expect("worker thread")).collect()
    });
    outs.sort_by_key(|(lo, _)| *lo);
    outs.into_iter().map(|(_, o)| o).collect()
}

fn path_to(parents: &[(u32, Op)], mut id: u32) -> Vec<Op> {
    let mut p = vec![];
    while id != 0 {
        let (par, op) = parents[id as usize];
        p.push(op);
        id = par;
    }
    p.reverse();
    p
}

fn ops_json(b: &Bounds, path: &[Op]) -> Value {
    json!({
        "bounds": {"n": b.n, "t": b.t, "q": b.q, "k": b.k},
        "seq": path.iter().map(|o| o.to_json()).collect::<Vec<_>>(),
    })
}

/// Startup check of the harness' own size arithmetic against protobuf.
fn size_self_check(b: &Bounds) -> Option<String> {
    use protobuf::Message;
    for i in 1..=b.n + 1 {
        for t in 1..=b.t {
            let e = mk_entry(i, t);
            if e.compute_size() as u64 != esize(i, t) {
                return Some(format!("size of entry {}:{} is {} not {}", i, t, e.compute_size(), esize(i, t)));
            }
        }
    }
    None
}

pub fn run(tier: &str, seed: u64, budget_s: f64, threads: usize) -> CompResult {
    let t0 = std::time::Instant::now();
    let passes = bounds_for(tier);
    let mut total: Option<CompResult> = None;
    let mut per_pass = vec![];
    for (n, b) in passes.iter().enumerate() {
        let left = budget_s - t0.elapsed().as_secs_f64();
        let mut r = if n > 0 && left < 20.0 {
            let mut r = empty_result();
            r.cap_hit = Some(format!("time budget: pass {:?} not started ({:.0}s left)", b, left));
            r
        } else {
            run_bounds(*b, seed, left, threads)
        };
        per_pass.push(json!({
            "bounds": {"max_index": b.n, "max_term": b.t, "max_outstanding_readies": b.q, "max_entries_per_append": b.k},
            "pairs": r.states, "operations_executed": r.transitions, "exhaustive": r.exhaustive,
            "cap_hit": r.cap_hit, "wall_s": (r.wall_s * 10.0).round() / 10.0, "counters": r.stats,
        }));
        let stop = !r.violations.is_empty();
        total = Some(match total.take() {
            None => r,
            Some(mut t) => {
                t.states += r.states;
                t.transitions += r.transitions;
                t.validated += r.validated;
                t.exhaustive &= r.exhaustive;
                if t.cap_hit.is_none() {
                    t.cap_hit = r.cap_hit.take();
                }
                t.samples.truncate(2);
                t.samples.extend(r.samples.drain(..).take(1));
                t.violations.append(&mut r.violations);
                t.nonvacuous &= r.nonvacuous;
                // counters: sums over the passes
                if let (Some(a), Some(bq)) = (t.stats.as_object_mut(), r.stats.as_object()) {
                    for (k, v) in bq {
                        if let (Some(x), Some(y)) = (a.get(k).and_then(|x| x.as_u64()), v.as_u64()) {
                            a.insert(k.clone(), json!(x + y));
                        }
                    }
                }
                t
            }
        });
        if stop {
            break;
        }
    }
    let mut t = total.unwrap_or_else(empty_result);
    if let Some(a) = t.stats.as_object_mut() {
        a.remove("bounds");
        a.remove("bfs_levels");
        a.remove("wall_s_collect_execute_resolve_append");
        a.insert("passes".into(), json!(per_pass));
    }
    t.wall_s = t0.elapsed().as_secs_f64();
    t
}

fn empty_result() -> CompResult {
    CompResult {
        engine: "raftlog".into(),
        states: 0,
        transitions: 0,
        validated: 0,
        exhaustive: false,
        cap_hit: None,
        samples: vec![],
        stats: json!({}),
        violations: vec![],
        nonvacuous: true,
        wall_s: 0.0,
    }
}

fn run_bounds(b: Bounds, seed: u64, budget_s: f64, threads: usize) -> CompResult {
    let t0 = std::time::Instant::now();
    let threads = threads.max(1);
    let mut res = empty_result();
    res.nonvacuous = false;
    if let Some(e) = size_self_check(&b) {
        res.violations.push(("harness:size-arithmetic".into(), e, ops_json(&b, &[])));
        return res;
    }
    let max_states: usize = 400_000_000;
    // leave time for the determinism re-validation and the report
    let deadline = (budget_s * 0.92 - 1.0).max(2.0);
    let stop = AtomicBool::new(false);
    let rot = seed as usize;
    let over = || t0.elapsed().as_secs_f64() > deadline;

    let interner = Interner::new();
    let pseen = PSeen::new();
    let mut lnodes: Vec<Option<LNode>> = vec![];
    let mut memo: std::collections::HashMap<u64, u32> = std::collections::HashMap::new();
    let mut pstates: Vec<u64> = vec![];
    let mut parents: Vec<(u32, Op)> = vec![];
    let mut stats: Stats = [0; NST];
    let mut found: Vec<Found> = vec![];
    let (mut executed, mut noops, mut presolved, mut blocked) = (0u64, 0u64, 0u64, 0u64);
    let mut levels = 0u32;
    let mut phase_s = [0f64; 4];

    // ---- initial pair
    {
        let mut log0 = new_log();
        let m0 = Model::new();
        let lk = lkey_of(&log0, &m0);
        let (lid, _) = interner.intern(lk);
        match guarded(|| observe(&mut log0, &m0, &b, &mut stats)) {
            Ok(Ok(())) => {}
            Ok(Err((kind, detail))) => {
                res.violations.push((kind, format!("initial state: {}", detail), ops_json(&b, &[])));
            }
            Err((msg, loc)) => {
                res.violations.push(("panic:observer".into(), format!("initial state: {} @ {}", msg, loc), ops_json(&b, &[])));
            }
        }
        lnodes.push(Some(LNode { log: Shared(log0), m: m0, succ: vec![], expanded: false }));
        pstates.push(pkey(lid, &Q::default()));
        parents.push((0, Op::Ready));
        pseen.insert(pkey(lid, &Q::default()));
    }
    let mut level_lo = 0usize;
    let place = |lnodes: &mut Vec<Option<LNode>>, new_nodes: Vec<(u32, LNode)>, total: usize| {
        if lnodes.len() < total {
            lnodes.resize_with(total, || None);
        }
        for (id, n) in new_nodes {
            lnodes[id as usize] = Some(n);
        }
    };

    'bfs: while level_lo < pstates.len() && res.violations.is_empty() {
        levels += 1;
        let level_hi = pstates.len();
        let frontier = &pstates[level_lo..level_hi];

        // ---- 1. which L pairs of this level still need their queue-independent operations
        //         executed, which queue-dependent (L, arguments) are still unknown
        let tp = std::time::Instant::now();
        #[derive(Default)]
        struct Need {
            ls: Vec<(u32, u32)>,
            lazy: Vec<(u64, u32, Op, Q)>,
        }
        let needs: Vec<Need> = {
            let lnodes = &lnodes;
            let memo = &memo;
            par_for::<Need>(frontier.len(), 8192, threads, &stop, &|range, out| {
                let mut seen_l: HashSet<u32> = HashSet::new();
                let mut seen_z: HashSet<u64> = HashSet::new();
                let mut bl = 0u64;
                for x in range {
                    let (lid, q) = unpkey(frontier[x]);
                    let pid = (level_lo + x) as u32;
                    let node = lnodes[lid as usize].as_ref().unwrap();
                    if !node.expanded && seen_l.insert(lid) {
                        out.ls.push((lid, pid));
                    }
                    lazy_ops(&node.m, &q, &b, &mut bl, &mut |op, code, _q2| {
                        let k = ((lid as u64) << 32) | code as u64;
                        if !memo.contains_key(&k) && seen_z.insert(k) {
                            out.lazy.push((k, pid, op, q));
                        }
                    });
                }
            })
        };
        let mut todo_l: Vec<(u32, u32)> = vec![];
        let mut todo_z: Vec<(u64, u32, Op, Q)> = vec![];
        {
            let mut sl: HashSet<u32> = HashSet::new();
            let mut sz: HashSet<u64> = HashSet::new();
            for n in needs {
                for (lid, pid) in n.ls {
                    if sl.insert(lid) {
                        todo_l.push((lid, pid));
                    }
                }
                for z in n.lazy {
                    if sz.insert(z.0) {
                        todo_z.push(z);
                    }
                }
            }
        }

        phase_s[0] += tp.elapsed().as_secs_f64();
        let tp = std::time::Instant::now();
        // ---- 2. execute them on the real code
        let outs: Vec<ExecOut> = {
            let lnodes = &lnodes;
            let interner = &interner;
            let todo_l = &todo_l;
            let todo_z = &todo_z;
            let nl = todo_l.len();
            par_for::<ExecOut>(nl + todo_z.len(), 16, threads, &stop, &|range, out| {
                let tl = slog::Logger::root(slog::Discard, slog::o!());
                for x in range {
                    if x < nl {
                        let (lid, pid) = todo_l[x];
                        let src = lnodes[lid as usize].as_ref().unwrap();
                        // thread-private logger handle: clones made in this thread touch no
                        // reference count shared with other threads
                        let mut log: Log = src.log.0.clone();
                        log.unstable.logger = tl.clone();
                        let node = LNode { log: Shared(log), m: src.m, succ: vec![], expanded: false };
                        expand_l(lid, &node, pid, &b, interner, out, rot);
                    } else {
                        let (key, pid, op, q) = todo_z[x - nl];
                        let lid = (key >> 32) as u32;
                        let src = lnodes[lid as usize].as_ref().unwrap();
                        let mut m = src.m;
                        m.queue = q.to_sv();
                        let pre = guarded(|| committed_prefix(&src.log)).unwrap_or_default();
                        out.executed += 1;
                        let r = step(&src.log, &m, &op, &pre, &mut out.stats);
                        if let Some(l2) = settle(r, pid, &op, &b, interner, out) {
                            out.lazy.push((key, l2));
                        }
                    }
                }
                if over() {
                    stop.store(true, Ordering::Relaxed);
                }
            })
        };
        for o in outs {
            place(&mut lnodes, o.new_nodes, interner.len());
            found.extend(o.found);
            executed += o.executed;
            noops += o.noops;
            for k in 0..NST {
                stats[k] += o.stats[k];
            }
            for (lid, succ) in o.succs {
                let n = lnodes[lid as usize].as_mut().unwrap();
                n.succ = succ;
                n.expanded = true;
            }
            for (k, l2) in o.lazy {
                memo.insert(k, l2);
            }
        }
        if lnodes.len() < interner.len() {
            lnodes.resize_with(interner.len(), || None);
        }
        if stop.load(Ordering::Relaxed) {
            res.cap_hit = Some(format!(
                "time budget: stopped in BFS level {} after {:.0}s ({} pairs reached, level not completed)",
                levels, t0.elapsed().as_secs_f64(), pstates.len()
            ));
            break 'bfs;
        }
        if !found.is_empty() {
            break 'bfs;
        }

        phase_s[1] += tp.elapsed().as_secs_f64();
        let tp = std::time::Instant::now();
        // ---- 3. successors of every pair of the level
        #[derive(Default)]
        struct Next {
            v: Vec<(u32, Q, u32, Op)>,
            resolved: u64,
            blocked: u64,
        }
        let nexts: Vec<Next> = {
            let lnodes = &lnodes;
            let memo = &memo;
            let pseen = &pseen;
            par_for::<Next>(frontier.len(), 2048, threads, &stop, &|range, out| {
                for x in range {
                    let (lid, q) = unpkey(frontier[x]);
                    let pid = (level_lo + x) as u32;
                    let node = lnodes[lid as usize].as_ref().unwrap();
                    for (op, l2) in &node.succ {
                        out.resolved += 1;
                        if pseen.insert(pkey(*l2, &q)) {
                            out.v.push((*l2, q, pid, *op));
                        }
                    }
                    let mut bl = 0u64;
                    let mut lz: SV<(u32, u32), 8> = SV::new();
                    let mut qs: [Q; 8] = [Q::default(); 8];
                    let mut os: [Op; 8] = [Op::Ready; 8];
                    lazy_ops(&node.m, &q, &b, &mut bl, &mut |op, code, q2| {
                        let n = lz.len();
                        qs[n] = q2;
                        os[n] = op;
                        lz.push((code, 0));
                    });
                    out.blocked += bl;
                    for (n, (code, _)) in lz.as_slice().iter().enumerate() {
                        let k = ((lid as u64) << 32) | *code as u64;
                        if let Some(l2) = memo.get(&k) {
                            out.resolved += 1;
                            if pseen.insert(pkey(*l2, &qs[n])) {
                                out.v.push((*l2, qs[n], pid, os[n]));
                            }
                        }
                    }
                }
                if over() {
                    stop.store(true, Ordering::Relaxed);
                }
            })
        };
        if stop.load(Ordering::Relaxed) {
            res.cap_hit = Some(format!(
                "time budget: stopped in BFS level {} after {:.0}s ({} pairs reached, level not completed)",
                levels, t0.elapsed().as_secs_f64(), pstates.len()
            ));
            break 'bfs;
        }
        phase_s[2] += tp.elapsed().as_secs_f64();
        let tp = std::time::Instant::now();
        level_lo = level_hi;
        for n in nexts {
            presolved += n.resolved;
            blocked += n.blocked;
            for (l2, q, pid, op) in n.v {
                pstates.push(pkey(l2, &q));
                parents.push((pid, op));
            }
        }
        phase_s[3] += tp.elapsed().as_secs_f64();
        if pstates.len() > max_states {
            res.cap_hit = Some(format!("state cap {} reached in BFS level {}", max_states, levels));
            break 'bfs;
        }
    }
    let fixpoint = level_lo >= pstates.len();
    stats[S_BLOCKED_PSNAP] = blocked;

    // ---- violations: one per kind, shortest first (BFS order), at most 5
    found.sort_by(|a, b2| (a.pid, &a.kind).cmp(&(b2.pid, &b2.kind)));
    let mut kinds: HashSet<String> = res.violations.iter().map(|v| v.0.clone()).collect();
    for f in &found {
        if kinds.len() >= 5 {
            break;
        }
        if kinds.contains(&f.kind) {
            continue;
        }
        kinds.insert(f.kind.clone());
        let mut path = path_to(&parents, f.pid);
        path.push(f.op);
        res.violations.push((f.kind.clone(), f.detail.clone(), ops_json(&b, &path)));
    }

    // ---- determinism self-check: re-execute recorded paths from the initial pair, one
    //      operation after the other on the real code, and compare with the recorded pair
    let total = pstates.len();
    let want = 400usize.min(total);
    let mut validated = 0u64;
    if res.violations.is_empty() {
        let mut dst: Stats = [0; NST];
        for j in 0..want {
            let id = if want <= 1 { 0 } else { (j as u128 * (total as u128 - 1) / (want as u128 - 1)) as usize };
            let path = path_to(&parents, id as u32);
            let mut log = new_log();
            let mut m = Model::new();
            let mut ok = true;
            for op in &path {
                let pre = guarded(|| committed_prefix(&log)).unwrap_or_default();
                match step(&log, &m, op, &pre, &mut dst) {
                    Ok((l2, m2)) => {
                        log = l2;
                        m = m2;
                    }
                    Err(_) => {
                        ok = false;
                        break;
                    }
                }
            }
            let q = Q::from_sv(&m.queue);
            let mut ml = m;
            ml.queue.clear();
            let lid = interner.get(lkey_of(&log, &ml));
            if !ok || lid != Some(unpkey(pstates[id]).0) || q != unpkey(pstates[id]).1 {
                res.violations.push((
                    "harness:nondeterministic-replay".into(),
                    format!("re-executing the path of pair {} does not reproduce it", id),
                    ops_json(&b, &path),
                ));
                break;
            }
            validated += 1;
        }
    }

    // ---- samples
    if total > 1 {
        for id in [total - 1, total / 2, total / 7 + 1] {
            let id = id.min(total - 1);
            res.samples.push(ops_json(&b, &path_to(&parents, id as u32)));
        }
    }

    let mut sj = serde_json::Map::new();
    for k in 0..NST {
        sj.insert(ST_NAMES[k].to_string(), json!(stats[k]));
    }
    sj.insert("bfs_levels".into(), json!(levels));
    sj.insert("wall_s_collect_execute_resolve_append".into(), json!(phase_s.iter().map(|x| (x * 10.0).round() / 10.0).collect::<Vec<_>>()));
    sj.insert("distinct_raftlog_model_pairs_ignoring_ready_records".into(), json!(interner.len()));
    sj.insert("executions_without_state_change".into(), json!(noops));
    sj.insert("pair_transitions_resolved_from_executed_operations".into(), json!(presolved));
    sj.insert("bounds".into(), json!({"max_index": b.n, "max_term": b.t, "max_outstanding_readies": b.q, "max_entries_per_append": b.k}));
    let mut vac = vec![];
    for k in ST_REQUIRED {
        if stats[k] == 0 {
            vac.push(ST_NAMES[k]);
        }
    }
    if stats[S_BLOCKED_PSNAP] != 0 {
        vac.push("persist_snap_precondition_blocked must be 0");
    }
    sj.insert("vacuous_counters".into(), json!(vac));
    res.stats = Value::Object(sj);
    res.states = total as u64;
    res.transitions = executed;
    res.validated = validated;
    res.exhaustive = res.cap_hit.is_none() && res.violations.is_empty() && fixpoint;
    res.nonvacuous = vac.is_empty() || !res.violations.is_empty();
    res.wall_s = t0.elapsed().as_secs_f64();
    res
}

// ------------------------------------------------------------------------------------------
// replay
// ------------------------------------------------------------------------------------------

pub fn replay(j: &Value) -> i32 {
    let ops = if j.get("ops").map(|o| o.is_object()).unwrap_or(false) { &j["ops"] } else { j };
    let Some(seq) = ops.get("seq").and_then(|s| s.as_array()) else {
        eprintln!("raftlog replay: no ops.seq array");
        return 2;
    };
    let bj = &ops["bounds"];
    let b = Bounds {
        n: bj["n"].as_u64().unwrap_or(6),
        t: bj["t"].as_u64().unwrap_or(3),
        q: bj["q"].as_u64().unwrap_or(2) as usize,
        k: bj["k"].as_u64().unwrap_or(2) as usize,
    };
    let want_kind = j.get("kind").and_then(|k| k.as_str()).map(|s| s.to_string());
    let mut path = vec![];
    for o in seq {
        match Op::from_json(o) {
            Some(op) => path.push(op),
            None => {
                eprintln!("raftlog replay: cannot parse op {}", o);
                return 2;
            }
        }
    }
    let mut st: Stats = [0; NST];
    let mut log = new_log();
    let mut m = Model::new();
    let mut hits: Vec<Viol> = vec![];
    println!("  start: {}", describe(&log));
    let check = |log: &mut Log, m: &Model, st: &mut Stats| -> Option<Viol> {
        match guarded(|| observe(log, m, &b, st)) {
            Ok(Ok(())) => None,
            Ok(Err(v)) => Some(v),
            Err((msg, loc)) => Some(("panic:observer".into(), format!("{} @ {}", msg, loc))),
        }
    };
    if let Some(v) = check(&mut log, &m, &mut st) {
        hits.push(v);
    }
    for (n, op) in path.iter().enumerate() {
        if !hits.is_empty() {
            break;
        }
        let en = enabled_ops(&m, &b, &mut st);
        if !en.contains(op) {
            println!("  step {}: {:?} is not in the alphabet of this state (model: {})", n + 1, op, describe_model(&m));
            return 2;
        }
        let pre = guarded(|| committed_prefix(&log)).unwrap_or_default();
        match step(&log, &m, op, &pre, &mut st) {
            Ok((l2, m2)) => {
                log = l2;
                m = m2;
                println!("  step {}: {:?}\n      -> {}", n + 1, op, describe(&log));
                if let Some((k, d)) = check(&mut log, &m, &mut st) {
                    hits.push((k, format!("{} | {}", d, describe_model(&m))));
                }
            }
            Err(v) => {
                println!("  step {}: {:?}", n + 1, op);
                hits.push(v);
            }
        }
    }
    let mut hit = false;
    for (k, d) in &hits {
        println!("  violation [{}] {}", k, d);
        if want_kind.as_deref().map(|w| w == k).unwrap_or(true) {
            hit = true;
        }
    }
    if hit {
        println!("VIOLATION property=C14 engine=raftlog reproduced");
        1
    } else {
        println!("no violation of C14{} on this replay", want_kind.map(|k| format!(" [{}]", k)).unwrap_or_default());
        0
    }
}
