//! Component engines: joint breadth-first search over (implementation, reference model)
//! pairs under every operation sequence of a small alphabet (C11 is stateless and
//! degenerates to complete enumeration).

use crate::check::CompResult;

pub mod confchange;
pub mod inflights;
pub mod memstorage;
pub mod quorum;
pub mod raftlog;

pub fn run(engine: &str, tier: &str, seed: u64, budget_s: f64, threads: usize) -> CompResult {
    match engine {
        "inflights" => inflights::run(tier, seed, budget_s, threads),
        "quorum" => quorum::run(tier, seed, budget_s, threads),
        "memstorage" => memstorage::run(tier, seed, budget_s, threads),
        "confchange" => confchange::run(tier, seed, budget_s, threads),
        "raftlog" => raftlog::run(tier, seed, budget_s, threads),
        _ => panic!("unknown component engine {}", engine),
    }
}

pub fn replay(engine: &str, j: &serde_json::Value) -> i32 {
    match engine {
        "inflights" => inflights::replay(j),
        "quorum" => quorum::replay(j),
        "memstorage" => memstorage::replay(j),
        "confchange" => confchange::replay(j),
        "raftlog" => raftlog::replay(j),
        _ => {
            eprintln!("unknown engine {}", engine);
            2
        }
    }
}

/// Placeholder result for an engine that is not built yet.
pub fn not_built(name: &str) -> CompResult {
    CompResult {
        engine: name.to_string(),
        states: 0,
        transitions: 0,
        validated: 0,
        exhaustive: false,
        cap_hit: Some("engine not built".into()),
        samples: vec![],
        stats: serde_json::json!({}),
        violations: vec![],
        nonvacuous: false,
        wall_s: 0.0,
    }
}
