//! C11 — quorum arithmetic: commit index and vote tallies are exact.
//!
//! The functions are stateless, so the joint search degenerates to a complete enumeration of a
//! finite input space; every input is evaluated by the real code and by the definitions.
//!
//! Inputs
//!   M  `MajorityConfig` of size n = 0..=9 over three id universes (consecutive ids, ids near
//!      u64::MAX, ids that all collide in the hash table's low bits) and two table layouts
//!      (`new(set)`, `with_capacity(32)` + insert), so that the iteration order varies;
//!      per voter: missing, or (acked index, group) with index in 0..=3 and group in 0..=2 for
//!      n <= 7 (the stack array of majority.rs), index in 0..=2 and group in 0..=1 for n in {8,9}
//!      (the heap path); every vector is evaluated with and without group commit.
//!      Vote maps {yes, no, missing}^n.
//!   J  `JointConfig` over a 5-id universe: every (incoming, outgoing) pair of the 32 x 32 that
//!      the public API can build (`confchange::restore` over `ProgressTracker`/`Changer`; a
//!      non-empty outgoing half needs a non-empty incoming half, so 31 of the 1024 pairs do not
//!      exist), including overlapping halves and the empty config; per voter of the union:
//!      missing or (index in 0..=3 [quick: 0..=2], group in 0..=2); vote maps {yes, no, missing}^|union|.
//!   T  the public `ProgressTracker` path over a 4-id universe plus one learner and one stranger:
//!      `maximal_committed_index` (matched in 0..=2, group in 0..=2, learner far ahead),
//!      `tally_votes` (votes of members, the learner and the stranger), `has_quorum` (all subsets).
//!
//! Oracle = the definitions of the statement
//!   commit  = max i such that every non-empty half has a strict majority of voters with
//!             ack >= i (a missing voter acks 0); u64::MAX when there is no voter at all
//!   vote    = Won iff every non-empty half has a strict majority of yes; Lost iff some non-empty
//!             half cannot reach one any more (yes + missing is not a strict majority); else Pending
//!   group commit: the result never exceeds the plain quorum index; when every voter of a half
//!             has a non-zero group and at least two groups exist, the half's value is
//!             min(quorum index, second-largest per-group maximum) (= the largest quorum-acked
//!             index replicated into two groups) and the joint value is the minimum of the halves
//!   flag    : false without group commit (non-empty config); true when the formula case applies
//!
//! "states" = distinct inputs, "transitions" = calls into raft-rs.

use crate::check::CompResult;
use crate::util::{guarded, mix};
use raft::eraftpb::ConfState;
use raft::verif::{AckIndexer, AckedIndexer, Index, VoteResult};
use raft::{JointConfig, MajorityConfig, ProgressTracker};
use serde_json::{json, Value};
use std::collections::HashSet;
use std::hash::BuildHasherDefault;
use std::sync::atomic::{AtomicBool, AtomicUsize, Ordering};
use std::sync::Mutex;
use std::time::Instant;

const ENGINE: &str = "quorum";
const MAX_KINDS: usize = 5;
type FxSet = HashSet<u64, BuildHasherDefault<fxhash::FxHasher>>;

const UNIVERSES: [[u64; 9]; 3] = [
    [1, 2, 3, 4, 5, 6, 7, 8, 9],
    [
        u64::MAX - 40,
        u64::MAX - 3,
        u64::MAX - 17,
        u64::MAX - 1,
        u64::MAX - 29,
        u64::MAX - 8,
        u64::MAX - 2,
        u64::MAX - 100,
        u64::MAX - 55,
    ],
    // all multiples of 16: same low hash bits, the table order depends on probing
    [16, 32, 48, 64, 80, 96, 112, 128, 144],
];
const JOINT_UNIVERSES: [[u64; 5]; 2] = [[1, 2, 3, 4, 5], [16, 32, 48, 64, 80]];
const TRACKER_IDS: [u64; 4] = [1, 2, 3, 4];
const TRACKER_LEARNER: u64 = 7;
const TRACKER_STRANGER: u64 = 9;

// ------------------------------------------------------------------------------------------
// the definitions (reference)
// ------------------------------------------------------------------------------------------

#[derive(Clone, Copy, PartialEq, Eq, Debug)]
enum OV {
    Won,
    Lost,
    Pending,
}

fn ov_of(v: VoteResult) -> OV {
    match v {
        VoteResult::Won => OV::Won,
        VoteResult::Lost => OV::Lost,
        VoteResult::Pending => OV::Pending,
    }
}

/// (index, group) per voter of a half; a missing voter is (0, 0).
type HalfVals<'a> = &'a [(u64, u64)];

/// max i such that every non-empty half has a strict majority with ack >= i.
fn def_commit(halves: [HalfVals; 2]) -> u64 {
    if halves.iter().all(|h| h.is_empty()) {
        return u64::MAX;
    }
    let top = halves.iter().flat_map(|h| h.iter().map(|v| v.0)).max().unwrap_or(0);
    let mut i = top;
    loop {
        let ok = halves
            .iter()
            .all(|h| h.is_empty() || 2 * h.iter().filter(|v| v.0 >= i).count() > h.len());
        if ok || i == 0 {
            return i;
        }
        i -= 1;
    }
}

/// Exact group-commit value of one half when the formula case applies (every voter has a
/// non-zero group, at least two groups): min(quorum index, second-largest per-group maximum).
/// `Some(u64::MAX)` for an empty half (it does not constrain), `None` when the case does not apply.
fn def_group_commit_half(h: HalfVals) -> Option<u64> {
    if h.is_empty() {
        return Some(u64::MAX);
    }
    if h.iter().any(|v| v.1 == 0) {
        return None;
    }
    // per-group maxima, largest two (no allocation: this runs once per enumerated input)
    let (mut groups, mut top, mut second) = (0usize, 0u64, 0u64);
    for (k, v) in h.iter().enumerate() {
        if h[..k].iter().any(|w| w.1 == v.1) {
            continue; // group already handled at its first member
        }
        let gmax = h.iter().filter(|w| w.1 == v.1).map(|w| w.0).max().unwrap_or(0);
        groups += 1;
        if groups == 1 {
            top = gmax;
        } else if gmax > top {
            second = top;
            top = gmax;
        } else if groups == 2 || gmax > second {
            second = gmax;
        }
    }
    if groups < 2 {
        return None;
    }
    Some(def_commit([h, &[]]).min(second))
}

fn def_vote(halves: [&[Option<bool>]; 2]) -> OV {
    let mut all_won = true;
    let mut any_lost = false;
    for h in halves.iter() {
        if h.is_empty() {
            continue;
        }
        let yes = h.iter().filter(|v| **v == Some(true)).count();
        let missing = h.iter().filter(|v| v.is_none()).count();
        if 2 * yes <= h.len() {
            all_won = false;
        }
        if 2 * (yes + missing) <= h.len() {
            any_lost = true;
        }
    }
    if all_won {
        OV::Won
    } else if any_lost {
        OV::Lost
    } else {
        OV::Pending
    }
}

/// Judges one commit evaluation. `None` = agrees with the definitions.
fn judge_commit(halves: [HalfVals; 2], gc: bool, got: (u64, bool)) -> Option<(&'static str, String)> {
    let plain = def_commit(halves);
    let nonempty = halves.iter().any(|h| !h.is_empty());
    let formula = (def_group_commit_half(halves[0]), def_group_commit_half(halves[1]));
    judge_commit_pre(plain, formula, nonempty, gc, got)
}

/// `judge_commit` with the definitions already evaluated (they do not depend on the flag).
#[inline]
fn judge_commit_pre(plain: u64, formula: (Option<u64>, Option<u64>), nonempty: bool, gc: bool, got: (u64, bool)) -> Option<(&'static str, String)> {
    if !gc {
        if got.0 != plain {
            return Some(("commit-index-mismatch", format!("committed_index = {} but the largest index acked by a majority of each non-empty half is {}", got.0, plain)));
        }
        if nonempty && got.1 {
            return Some(("group-commit-flag-set-without-group-commit", format!("committed_index(false) returned flag=true, index {}", got.0)));
        }
        return None;
    }
    if got.0 > plain {
        return Some(("group-commit-exceeds-quorum-index", format!("group commit index {} > plain quorum index {}", got.0, plain)));
    }
    if let (Some(a), Some(b)) = formula {
        let want = a.min(b);
        if got.0 != want {
            return Some(("group-commit-index-mismatch", format!("group commit index {} but min(quorum index, second-largest per-group maximum) over the halves is {} (plain quorum index {})", got.0, want, plain)));
        }
        if nonempty && !got.1 {
            return Some(("group-commit-flag-clear-in-formula-case", format!("every voter has a group and two groups exist, index {} is right but flag=false", got.0)));
        }
    }
    None
}

fn judge_vote(halves: [&[Option<bool>]; 2], got: OV) -> Option<(&'static str, String)> {
    let want = def_vote(halves);
    if got != want {
        return Some(("vote-result-mismatch", format!("vote_result = {:?} but counting per half gives {:?}", got, want)));
    }
    None
}

// ------------------------------------------------------------------------------------------
// a case = one input, self-contained (used for confirmation, validation, samples, replay)
// ------------------------------------------------------------------------------------------

#[derive(Clone, Debug, PartialEq, Eq)]
enum What {
    Commit,
    Vote,
    Tally,
    HasQuorum,
}

#[derive(Clone, Debug)]
struct Case {
    /// "majority" | "joint" | "tracker"
    path: &'static str,
    /// 0: `new(set)`; 1: `with_capacity(32)` + insert (majority only)
    build: u8,
    incoming: Vec<u64>,
    outgoing: Vec<u64>,
    learners: Vec<u64>,
    /// (id, index, group); ids not listed are missing
    acks: Vec<(u64, u64, u64)>,
    /// (id, vote); ids not listed are missing
    votes: Vec<(u64, bool)>,
    set: Vec<u64>,
    gc: bool,
    what: What,
}

impl Case {
    fn to_json(&self) -> Value {
        json!({
            "path": self.path,
            "build": self.build,
            "incoming": self.incoming.iter().map(|x| x.to_string()).collect::<Vec<_>>(),
            "outgoing": self.outgoing.iter().map(|x| x.to_string()).collect::<Vec<_>>(),
            "learners": self.learners.iter().map(|x| x.to_string()).collect::<Vec<_>>(),
            "acks": self.acks.iter().map(|(i, x, g)| json!([i.to_string(), x, g])).collect::<Vec<_>>(),
            "votes": self.votes.iter().map(|(i, v)| json!([i.to_string(), v])).collect::<Vec<_>>(),
            "set": self.set.iter().map(|x| x.to_string()).collect::<Vec<_>>(),
            "use_group_commit": self.gc,
            "what": match self.what { What::Commit => "commit", What::Vote => "vote", What::Tally => "tally", What::HasQuorum => "has_quorum" },
        })
    }
    fn from_json(j: &Value) -> Option<Case> {
        let ids = |k: &str| -> Option<Vec<u64>> {
            j.get(k)?.as_array()?.iter().map(|x| x.as_str()?.parse::<u64>().ok()).collect()
        };
        let path = match j.get("path")?.as_str()? {
            "majority" => "majority",
            "joint" => "joint",
            "tracker" => "tracker",
            _ => return None,
        };
        let what = match j.get("what")?.as_str()? {
            "commit" => What::Commit,
            "vote" => What::Vote,
            "tally" => What::Tally,
            "has_quorum" => What::HasQuorum,
            _ => return None,
        };
        let mut acks = vec![];
        for a in j.get("acks")?.as_array()? {
            acks.push((a.get(0)?.as_str()?.parse().ok()?, a.get(1)?.as_u64()?, a.get(2)?.as_u64()?));
        }
        let mut votes = vec![];
        for a in j.get("votes")?.as_array()? {
            votes.push((a.get(0)?.as_str()?.parse().ok()?, a.get(1)?.as_bool()?));
        }
        Some(Case {
            path,
            build: j.get("build")?.as_u64()? as u8,
            incoming: ids("incoming")?,
            outgoing: ids("outgoing")?,
            learners: ids("learners")?,
            acks,
            votes,
            set: ids("set")?,
            gc: j.get("use_group_commit")?.as_bool()?,
            what,
        })
    }
    fn ack_of(&self, id: u64) -> (u64, u64) {
        self.acks.iter().find(|a| a.0 == id).map(|a| (a.1, a.2)).unwrap_or((0, 0))
    }
    fn vote_of(&self, id: u64) -> Option<bool> {
        self.votes.iter().find(|a| a.0 == id).map(|a| a.1)
    }
}

fn panic_kind(c: &Case) -> String {
    let f = match (c.path, &c.what) {
        ("tracker", What::Commit) => "maximal_committed_index",
        ("tracker", What::HasQuorum) => "has_quorum",
        ("tracker", _) => "tally_votes",
        (_, What::Commit) => "committed_index",
        _ => "vote_result",
    };
    format!("{}-panic-in-{}", c.path, f)
}

fn build_majority(ids: &[u64], build: u8) -> MajorityConfig {
    if build == 0 {
        let set: FxSet = ids.iter().copied().collect();
        MajorityConfig::new(set)
    } else {
        let mut c = MajorityConfig::with_capacity(32);
        for id in ids {
            c.insert(*id);
        }
        c
    }
}

/// Builds a tracker whose configuration has the given halves (public path: confchange restore,
/// i.e. `Changer::simple` one voter at a time, then `Changer::enter_joint`, each applied with
/// `ProgressTracker::apply_conf`).
fn build_tracker(incoming: &[u64], outgoing: &[u64], learners: &[u64]) -> Result<ProgressTracker, String> {
    let mut t = ProgressTracker::new(4);
    let mut cs = ConfState::default();
    cs.set_voters(incoming.to_vec());
    cs.set_voters_outgoing(outgoing.to_vec());
    cs.set_learners(learners.to_vec());
    raft::verif::restore(&mut t, 1, &cs).map_err(|e| format!("{:?}", e))?;
    let v = t.conf().voters();
    let mut want: Vec<u64> = incoming.iter().chain(outgoing.iter()).copied().collect();
    want.sort_unstable();
    want.dedup();
    let mut have: Vec<u64> = v.ids().iter().collect();
    have.sort_unstable();
    have.dedup();
    if have != want || incoming.iter().any(|i| !v.contains(*i)) {
        return Err(format!("restore built voters {:?}, wanted {:?} / {:?}", have, incoming, outgoing));
    }
    Ok(t)
}

fn build_joint(incoming: &[u64], outgoing: &[u64]) -> Result<JointConfig, String> {
    if outgoing.is_empty() {
        let set: FxSet = incoming.iter().copied().collect();
        return Ok(JointConfig::new(set));
    }
    Ok(build_tracker(incoming, outgoing, &[])?.conf().voters().clone())
}

/// Evaluates one case from scratch through the stock `AckIndexer` (HashMap) and judges it.
/// Ok((observed, verdict)); Err = panic inside raft-rs or a case that cannot be built.
fn eval_case(c: &Case) -> Result<(String, Option<(String, String)>), (String, String)> {
    let in_vals: Vec<(u64, u64)> = c.incoming.iter().map(|i| c.ack_of(*i)).collect();
    let out_vals: Vec<(u64, u64)> = c.outgoing.iter().map(|i| c.ack_of(*i)).collect();
    let in_votes: Vec<Option<bool>> = c.incoming.iter().map(|i| c.vote_of(*i)).collect();
    let out_votes: Vec<Option<bool>> = c.outgoing.iter().map(|i| c.vote_of(*i)).collect();
    let mut acks = AckIndexer::default();
    for (id, x, g) in &c.acks {
        acks.insert(*id, Index { index: *x, group_id: *g });
    }
    let own = |v: Option<(&'static str, String)>, pre: &str| v.map(|(k, d)| (format!("{}-{}", pre, k), d));
    guarded(|| match (c.path, &c.what) {
        ("majority", What::Commit) => {
            let cfg = build_majority(&c.incoming, c.build);
            let got = cfg.committed_index(c.gc, &acks);
            (format!("{:?}", got), own(judge_commit([&in_vals, &[]], c.gc, got), "majority"))
        }
        ("majority", What::Vote) => {
            let cfg = build_majority(&c.incoming, c.build);
            let got = ov_of(cfg.vote_result(|id| c.vote_of(id)));
            (format!("{:?}", got), own(judge_vote([&in_votes, &[]], got), "majority"))
        }
        ("joint", What::Commit) => match build_joint(&c.incoming, &c.outgoing) {
            Ok(cfg) => {
                let got = cfg.committed_index(c.gc, &acks);
                (format!("{:?}", got), own(judge_commit([&in_vals, &out_vals], c.gc, got), "joint"))
            }
            Err(e) => (e.clone(), Some(("machinery-cannot-build-config".into(), e))),
        },
        ("joint", What::Vote) => match build_joint(&c.incoming, &c.outgoing) {
            Ok(cfg) => {
                let got = ov_of(cfg.vote_result(|id| c.vote_of(id)));
                (format!("{:?}", got), own(judge_vote([&in_votes, &out_votes], got), "joint"))
            }
            Err(e) => (e.clone(), Some(("machinery-cannot-build-config".into(), e))),
        },
        ("tracker", what) => match build_tracker(&c.incoming, &c.outgoing, &c.learners) {
            Ok(mut t) => match what {
                What::Commit => {
                    t.enable_group_commit(c.gc);
                    for (id, x, g) in &c.acks {
                        if let Some(p) = t.get_mut(*id) {
                            p.matched = *x;
                            p.commit_group_id = *g;
                        }
                    }
                    let got = t.maximal_committed_index();
                    (format!("{:?}", got), own(judge_commit([&in_vals, &out_vals], c.gc, got), "tracker"))
                }
                What::Tally | What::Vote => {
                    t.reset_votes();
                    for (id, v) in &c.votes {
                        t.record_vote(*id, *v);
                    }
                    let (g, r, res) = t.tally_votes();
                    let verdict = judge_tally(c, &in_votes, &out_votes, (g, r, ov_of(res)));
                    (format!("{:?}", (g, r, ov_of(res))), verdict)
                }
                What::HasQuorum => {
                    let set: FxSet = c.set.iter().copied().collect();
                    let got = t.has_quorum(&set);
                    let iv: Vec<Option<bool>> = c.incoming.iter().map(|i| c.set.contains(i).then_some(true)).collect();
                    let ov: Vec<Option<bool>> = c.outgoing.iter().map(|i| c.set.contains(i).then_some(true)).collect();
                    let want = def_vote([&iv, &ov]) == OV::Won;
                    let verdict = (got != want).then(|| {
                        ("tracker-has-quorum-mismatch".to_string(), format!("has_quorum = {} but the set {} a majority of each non-empty half", got, if want { "contains" } else { "does not contain" }))
                    });
                    (format!("{:?}", got), verdict)
                }
            },
            Err(e) => (e.clone(), Some(("machinery-cannot-build-config".into(), e))),
        },
        _ => ("".into(), Some(("machinery-bad-case".into(), "unknown path".into()))),
    })
}

fn judge_tally(c: &Case, in_votes: &[Option<bool>], out_votes: &[Option<bool>], got: (usize, usize, OV)) -> Option<(String, String)> {
    let member = |id: u64| c.incoming.contains(&id) || c.outgoing.contains(&id);
    let granted = c.votes.iter().filter(|v| member(v.0) && v.1).count();
    let rejected = c.votes.iter().filter(|v| member(v.0) && !v.1).count();
    if let Some((k, d)) = judge_vote([in_votes, out_votes], got.2) {
        return Some((format!("tracker-{}", k), d));
    }
    if got.0 != granted || got.1 != rejected {
        return Some((
            "tracker-tally-count-mismatch".into(),
            format!("tally_votes counted granted={} rejected={} but the voters of the configuration cast granted={} rejected={}", got.0, got.1, granted, rejected),
        ));
    }
    None
}

// ------------------------------------------------------------------------------------------
// fast enumeration
// ------------------------------------------------------------------------------------------

/// Array-backed `AckedIndexer` (the trait is the public seam of committed_index).
struct Acks {
    ids: [u64; 9],
    vals: [Option<Index>; 9],
    n: usize,
}

impl AckedIndexer for Acks {
    #[inline]
    fn acked_index(&self, voter_id: u64) -> Option<Index> {
        for k in 0..self.n {
            if self.ids[k] == voter_id {
                return self.vals[k];
            }
        }
        None
    }
}

struct Votes {
    ids: [u64; 9],
    vals: [Option<bool>; 9],
    n: usize,
}

impl Votes {
    #[inline]
    fn get(&self, id: u64) -> Option<bool> {
        for k in 0..self.n {
            if self.ids[k] == id {
                return self.vals[k];
            }
        }
        None
    }
}

#[derive(Default)]
struct Local {
    inputs: u64,
    calls: u64,
    c: Cnt,
    /// (kind, detail, case)
    found: Vec<(String, String, Case)>,
    /// (case, observed) for the determinism self-check
    samples: Vec<(Case, String)>,
}

#[derive(Default, Clone)]
struct Cnt {
    majority_commit_inputs: u64,
    majority_vote_inputs: u64,
    joint_commit_inputs: u64,
    joint_vote_inputs: u64,
    tracker_inputs: u64,
    stack_path: u64,
    heap_path: u64,
    empty_config: u64,
    joint_one_half_empty: u64,
    joint_overlapping: u64,
    joint_disjoint: u64,
    joint_halves_disagree: u64,
    missing_acks: u64,
    ties_at_quorum: u64,
    gc_formula_case: u64,
    gc_below_plain: u64,
    gc_single_group: u64,
    gc_some_ungrouped: u64,
    votes_won: u64,
    votes_lost: u64,
    votes_pending: u64,
    joint_won_one_half_only: u64,
    tally_nonmember_votes: u64,
    alt_layout_inputs: u64,
}

macro_rules! cnt_fields {
    ($m:ident) => {
        $m!(
            majority_commit_inputs, majority_vote_inputs, joint_commit_inputs, joint_vote_inputs, tracker_inputs,
            stack_path, heap_path, empty_config, joint_one_half_empty, joint_overlapping, joint_disjoint,
            joint_halves_disagree, missing_acks, ties_at_quorum, gc_formula_case, gc_below_plain, gc_single_group,
            gc_some_ungrouped, votes_won, votes_lost, votes_pending, joint_won_one_half_only, tally_nonmember_votes,
            alt_layout_inputs
        )
    };
}

impl Cnt {
    fn merge(&mut self, o: &Cnt) {
        macro_rules! m { ($($f:ident),*) => { $( self.$f += o.$f; )* } }
        cnt_fields!(m);
    }
    fn json(&self) -> Value {
        let mut j = json!({});
        macro_rules! m { ($($f:ident),*) => { $( j[stringify!($f)] = json!(self.$f); )* } }
        cnt_fields!(m);
        j
    }
}

/// One unit of work.
#[derive(Clone, Debug)]
enum Task {
    /// majority commit: universe, n, layout, (index values, group values), fixed leading digits
    MajCommit { u: usize, n: usize, build: u8, iv: u64, gv: u64, prefix: Vec<u8> },
    MajVotes { u: usize, n: usize, build: u8 },
    /// joint commit + votes: universe, incoming mask, outgoing mask
    Joint { u: usize, im: u32, om: u32, iv: u64, gv: u64 },
    Tracker { im: u32, om: u32 },
}

impl Task {
    fn weight(&self) -> u64 {
        match self {
            Task::MajCommit { n, iv, gv, prefix, .. } => (1 + iv * gv).pow((*n - prefix.len()) as u32),
            Task::MajVotes { n, .. } => 3u64.pow(*n as u32),
            Task::Joint { im, om, iv, gv, .. } => (1 + iv * gv).pow((im | om).count_ones()),
            Task::Tracker { im, om } => 9u64.pow((im | om).count_ones()) * 2,
        }
    }
    fn order(&self) -> (u64, u64) {
        // small configurations first so that a reported counterexample is a small one
        match self {
            Task::MajVotes { n, .. } => (*n as u64, 0),
            Task::MajCommit { n, .. } => (*n as u64, 1),
            Task::Joint { im, om, .. } => ((im.count_ones() + om.count_ones()) as u64, 2),
            Task::Tracker { im, om } => ((im.count_ones() + om.count_ones()) as u64, 3),
        }
    }
}

fn mask_ids(universe: &[u64], m: u32) -> Vec<u64> {
    (0..universe.len()).filter(|k| m >> k & 1 == 1).map(|k| universe[k]).collect()
}

fn permuted(ids: &[u64], seed: u64) -> Vec<u64> {
    let mut v = ids.to_vec();
    if seed != 0 {
        let mut s = seed;
        for i in (1..v.len()).rev() {
            s = mix(s, i as u64 + 77);
            v.swap(i, (s % (i as u64 + 1)) as usize);
        }
    }
    v
}

#[inline]
fn digit_val(d: u8, gv: u64) -> Option<Index> {
    if d == 0 {
        None
    } else {
        let x = (d - 1) as u64;
        Some(Index { index: x / gv, group_id: x % gv })
    }
}

struct Shared {
    stop: AtomicBool,
    timed_out: AtomicBool,
    deadline: Instant,
}

/// Enumerates every ack vector over `ids` (digits with the given fixed prefix), evaluates
/// `f(use_group_commit, &acks)` for both flags and judges the results against the halves.
#[allow(clippy::too_many_arguments)]
fn enum_acks<F: FnMut(bool, &Acks) -> (u64, bool)>(
    mut f: F,
    mk_case: &dyn Fn() -> Case,
    pre: &str,
    ids: &[u64],
    in_pos: &[usize],
    out_pos: &[usize],
    iv: u64,
    gv: u64,
    prefix: &[u8],
    joint: bool,
    alt_layout: bool,
    l: &mut Local,
    sh: &Shared,
    sample_at: u64,
) {
    let n = ids.len();
    let base = (1 + iv * gv) as u8;
    let mut acks = Acks { ids: [0; 9], vals: [None; 9], n };
    acks.ids[..n].copy_from_slice(ids);
    let mut digits = [0u8; 9];
    digits[..prefix.len()].copy_from_slice(prefix);
    let free_from = prefix.len();
    let mut vals = [(0u64, 0u64); 9];
    let mut inb = [(0u64, 0u64); 9];
    let mut outb = [(0u64, 0u64); 9];
    let mut local_n = 0u64;
    loop {
        let mut missing = 0;
        for k in 0..n {
            let v = digit_val(digits[k], gv);
            acks.vals[k] = v;
            vals[k] = v.map(|x| (x.index, x.group_id)).unwrap_or((0, 0));
            missing += v.is_none() as u64;
        }
        for (a, p) in in_pos.iter().enumerate() {
            inb[a] = vals[*p];
        }
        for (a, p) in out_pos.iter().enumerate() {
            outb[a] = vals[*p];
        }
        let halves: [HalfVals; 2] = [&inb[..in_pos.len()], &outb[..out_pos.len()]];
        let mut results = [(0u64, false); 2];
        let plain = def_commit(halves);
        let formula = (def_group_commit_half(halves[0]), def_group_commit_half(halves[1]));
        for (gi, gc) in [false, true].into_iter().enumerate() {
            let r = guarded(|| f(gc, &acks));
            l.calls += 1;
            let verdict = match r {
                Ok(got) => {
                    results[gi] = got;
                    judge_commit_pre(plain, formula, n > 0, gc, got).map(|(k, d)| (format!("{}-{}", pre, k), d))
                }
                Err((msg, loc)) => Some((format!("{}-panic-in-committed_index", pre), format!("{} @ {}", msg, loc))),
            };
            if let Some((kind, detail)) = verdict {
                let mut c = mk_case();
                c.gc = gc;
                c.acks = (0..n).filter_map(|k| acks.vals[k].map(|x| (ids[k], x.index, x.group_id))).collect();
                l.found.push((kind, detail, c));
                sh.stop.store(true, Ordering::Relaxed);
                return;
            }
        }
        // bookkeeping
        if alt_layout {
            l.c.alt_layout_inputs += 1;
        } else {
            l.inputs += 1;
            if joint {
                l.c.joint_commit_inputs += 1;
            } else {
                l.c.majority_commit_inputs += 1;
            }
        }
        l.c.missing_acks += (missing > 0) as u64;
        for h in halves.iter() {
            if h.is_empty() {
                continue;
            }
            if h.len() <= 7 {
                l.c.stack_path += 1;
            } else {
                l.c.heap_path += 1;
            }
            if h.iter().filter(|v| v.0 == plain).count() > 1 {
                l.c.ties_at_quorum += 1;
            }
        }
        if n == 0 {
            l.c.empty_config += 1;
        }
        if joint && !halves[0].is_empty() && !halves[1].is_empty() && def_commit([halves[0], &[]]) != def_commit([halves[1], &[]]) {
            l.c.joint_halves_disagree += 1;
        }
        if n > 0 {
            if formula.0.is_some() && formula.1.is_some() {
                l.c.gc_formula_case += 1;
                if results[1].0 < plain {
                    l.c.gc_below_plain += 1;
                }
            } else if halves.iter().any(|h| h.iter().any(|v| v.1 == 0)) {
                l.c.gc_some_ungrouped += 1;
            } else {
                l.c.gc_single_group += 1;
            }
        }
        if local_n == sample_at {
            let mut c = mk_case();
            c.gc = true;
            c.acks = (0..n).filter_map(|k| acks.vals[k].map(|x| (ids[k], x.index, x.group_id))).collect();
            l.samples.push((c, format!("{:?}", results[1])));
        }
        local_n += 1;
        if local_n % 65536 == 0 && (sh.stop.load(Ordering::Relaxed) || Instant::now() > sh.deadline) {
            if !sh.stop.load(Ordering::Relaxed) {
                sh.timed_out.store(true, Ordering::Relaxed);
            }
            return;
        }
        // next vector
        let mut k = n;
        loop {
            if k == free_from {
                return;
            }
            k -= 1;
            digits[k] += 1;
            if digits[k] < base {
                break;
            }
            digits[k] = 0;
        }
    }
}

/// Enumerates every vote map over `ids`.
#[allow(clippy::too_many_arguments)]
fn enum_votes<F: FnMut(&Votes) -> VoteResult>(
    mut f: F,
    mk_case: &dyn Fn() -> Case,
    pre: &str,
    ids: &[u64],
    in_pos: &[usize],
    out_pos: &[usize],
    joint: bool,
    alt_layout: bool,
    l: &mut Local,
    sh: &Shared,
    sample_at: u64,
) {
    let n = ids.len();
    let mut votes = Votes { ids: [0; 9], vals: [None; 9], n };
    votes.ids[..n].copy_from_slice(ids);
    let mut digits = [0u8; 9];
    let mut inb = [None; 9];
    let mut outb = [None; 9];
    let mut local_n = 0u64;
    loop {
        for k in 0..n {
            votes.vals[k] = match digits[k] {
                0 => None,
                1 => Some(true),
                _ => Some(false),
            };
        }
        for (a, p) in in_pos.iter().enumerate() {
            inb[a] = votes.vals[*p];
        }
        for (a, p) in out_pos.iter().enumerate() {
            outb[a] = votes.vals[*p];
        }
        let halves: [&[Option<bool>]; 2] = [&inb[..in_pos.len()], &outb[..out_pos.len()]];
        let r = guarded(|| f(&votes));
        l.calls += 1;
        let mut observed = OV::Pending;
        let verdict = match r {
            Ok(got) => {
                observed = ov_of(got);
                judge_vote(halves, observed).map(|(k, d)| (format!("{}-{}", pre, k), d))
            }
            Err((msg, loc)) => Some((format!("{}-panic-in-vote_result", pre), format!("{} @ {}", msg, loc))),
        };
        let fill = |c: &mut Case| {
            c.what = What::Vote;
            c.votes = (0..n).filter_map(|k| votes.vals[k].map(|v| (ids[k], v))).collect();
        };
        if let Some((kind, detail)) = verdict {
            let mut c = mk_case();
            fill(&mut c);
            l.found.push((kind, detail, c));
            sh.stop.store(true, Ordering::Relaxed);
            return;
        }
        if alt_layout {
            l.c.alt_layout_inputs += 1;
        } else {
            l.inputs += 1;
            if joint {
                l.c.joint_vote_inputs += 1;
            } else {
                l.c.majority_vote_inputs += 1;
            }
        }
        match observed {
            OV::Won => l.c.votes_won += 1,
            OV::Lost => l.c.votes_lost += 1,
            OV::Pending => l.c.votes_pending += 1,
        }
        if joint && !halves[0].is_empty() && !halves[1].is_empty() {
            let a = def_vote([halves[0], &[]]);
            let b = def_vote([halves[1], &[]]);
            if (a == OV::Won) != (b == OV::Won) {
                l.c.joint_won_one_half_only += 1;
            }
        }
        if local_n == sample_at {
            let mut c = mk_case();
            fill(&mut c);
            l.samples.push((c, format!("{:?}", observed)));
        }
        local_n += 1;
        let mut k = n;
        loop {
            if k == 0 {
                return;
            }
            k -= 1;
            digits[k] += 1;
            if digits[k] < 3 {
                break;
            }
            digits[k] = 0;
        }
    }
}

fn blank_case(path: &'static str, build: u8, incoming: &[u64], outgoing: &[u64]) -> Case {
    Case {
        path,
        build,
        incoming: incoming.to_vec(),
        outgoing: outgoing.to_vec(),
        learners: vec![],
        acks: vec![],
        votes: vec![],
        set: vec![],
        gc: false,
        what: What::Commit,
    }
}

fn positions(union: &[u64], half: &[u64]) -> Vec<usize> {
    half.iter().map(|id| union.iter().position(|u| u == id).unwrap()).collect()
}

fn machinery(l: &mut Local, sh: &Shared, what: String, c: Case) {
    l.found.push(("machinery-cannot-build-config".into(), what, c));
    sh.stop.store(true, Ordering::Relaxed);
}

fn run_task(t: &Task, ti: usize, seed: u64, l: &mut Local, sh: &Shared) {
    let sample_at = mix(ti as u64, seed) % t.weight().max(1);
    match t {
        Task::MajCommit { u, n, build, iv, gv, prefix } => {
            let ids = permuted(&UNIVERSES[*u][..*n], seed);
            let cfg = build_majority(&ids, *build);
            let pos: Vec<usize> = (0..*n).collect();
            let mk = || blank_case("majority", *build, &ids, &[]);
            enum_acks(|gc, a| cfg.committed_index(gc, a), &mk, "majority", &ids, &pos, &[], *iv, *gv, prefix, false, *build != 0, l, sh, sample_at);
        }
        Task::MajVotes { u, n, build } => {
            let ids = permuted(&UNIVERSES[*u][..*n], seed);
            let cfg = build_majority(&ids, *build);
            let pos: Vec<usize> = (0..*n).collect();
            let mk = || blank_case("majority", *build, &ids, &[]);
            enum_votes(|v| cfg.vote_result(|id| v.get(id)), &mk, "majority", &ids, &pos, &[], false, *build != 0, l, sh, sample_at);
        }
        Task::Joint { u, im, om, iv, gv } => {
            let uni = &JOINT_UNIVERSES[*u];
            let incoming = permuted(&mask_ids(uni, *im), seed);
            let outgoing = permuted(&mask_ids(uni, *om), seed);
            let union = mask_ids(uni, im | om);
            let cfg = match build_joint(&incoming, &outgoing) {
                Ok(c) => c,
                Err(e) => return machinery(l, sh, e, blank_case("joint", 0, &incoming, &outgoing)),
            };
            if *im == 0 || *om == 0 {
                if (im | om) != 0 {
                    l.c.joint_one_half_empty += 1;
                }
            } else if im & om != 0 {
                l.c.joint_overlapping += 1;
            } else {
                l.c.joint_disjoint += 1;
            }
            let ip = positions(&union, &incoming);
            let op = positions(&union, &outgoing);
            let mk = || blank_case("joint", 0, &incoming, &outgoing);
            enum_acks(|gc, a| cfg.committed_index(gc, a), &mk, "joint", &union, &ip, &op, *iv, *gv, &[], true, false, l, sh, sample_at);
            if sh.stop.load(Ordering::Relaxed) {
                return;
            }
            enum_votes(|v| cfg.vote_result(|id| v.get(id)), &mk, "joint", &union, &ip, &op, true, false, l, sh, sample_at % 3u64.pow(union.len() as u32));
        }
        Task::Tracker { im, om } => run_tracker_task(*im, *om, seed, l, sh, sample_at),
    }
}

/// The public ProgressTracker path for one (incoming, outgoing) pair over TRACKER_IDS, with one
/// learner (far ahead, voting) and one stranger (voting) that must not influence anything.
fn run_tracker_task(im: u32, om: u32, seed: u64, l: &mut Local, sh: &Shared, sample_at: u64) {
    let incoming = permuted(&mask_ids(&TRACKER_IDS, im), seed);
    let outgoing = permuted(&mask_ids(&TRACKER_IDS, om), seed);
    let union = mask_ids(&TRACKER_IDS, im | om);
    // a learner needs at least one voter (the Changer refuses a config without voters)
    let learners = if union.is_empty() { vec![] } else { vec![TRACKER_LEARNER] };
    let mut base = blank_case("tracker", 0, &incoming, &outgoing);
    base.learners = learners.clone();
    let mut t = match build_tracker(&incoming, &outgoing, &learners) {
        Ok(t) => t,
        Err(e) => return machinery(l, sh, e, base),
    };
    let n = union.len();
    let mut local_n = 0u64;
    // ---- maximal_committed_index: matched in 0..=2, group in 0..=2 per voter, learner at 3
    let mut digits = [0u8; 4];
    loop {
        let mut acks: Vec<(u64, u64, u64)> = (0..n).map(|k| (union[k], (digits[k] / 3) as u64, (digits[k] % 3) as u64)).collect();
        if !learners.is_empty() {
            acks.push((TRACKER_LEARNER, 3, 1));
        }
        let in_vals: Vec<(u64, u64)> = incoming.iter().map(|i| acks.iter().find(|a| a.0 == *i).map(|a| (a.1, a.2)).unwrap()).collect();
        let out_vals: Vec<(u64, u64)> = outgoing.iter().map(|i| acks.iter().find(|a| a.0 == *i).map(|a| (a.1, a.2)).unwrap()).collect();
        for gc in [false, true] {
            let r = guarded(|| {
                t.enable_group_commit(gc);
                for (id, x, g) in &acks {
                    let p = t.get_mut(*id).expect("progress of a configured peer");
                    p.matched = *x;
                    p.commit_group_id = *g;
                }
                t.maximal_committed_index()
            });
            l.calls += 1;
            let verdict = match r {
                Ok(got) => {
                    if local_n == sample_at && gc {
                        let mut c = base.clone();
                        c.gc = gc;
                        c.acks = acks.clone();
                        l.samples.push((c, format!("{:?}", got)));
                    }
                    judge_commit([&in_vals, &out_vals], gc, got).map(|(k, d)| (format!("tracker-{}", k), d))
                }
                Err((msg, loc)) => Some(("tracker-panic-in-maximal_committed_index".into(), format!("{} @ {}", msg, loc))),
            };
            if let Some((kind, detail)) = verdict {
                let mut c = base.clone();
                c.gc = gc;
                c.acks = acks.clone();
                l.found.push((kind, detail, c));
                sh.stop.store(true, Ordering::Relaxed);
                return;
            }
        }
        l.inputs += 1;
        l.c.tracker_inputs += 1;
        local_n += 1;
        let mut k = n;
        let mut done = false;
        loop {
            if k == 0 {
                done = true;
                break;
            }
            k -= 1;
            digits[k] += 1;
            if digits[k] < 9 {
                break;
            }
            digits[k] = 0;
        }
        if done {
            break;
        }
    }
    // ---- tally_votes: votes of the voters, the learner and the stranger
    let mut voters_all = union.clone();
    voters_all.push(TRACKER_LEARNER);
    voters_all.push(TRACKER_STRANGER);
    let m = voters_all.len();
    let mut digits = [0u8; 6];
    loop {
        let votes: Vec<(u64, bool)> = (0..m).filter(|k| digits[*k] != 0).map(|k| (voters_all[k], digits[k] == 1)).collect();
        let mut c = base.clone();
        c.what = What::Tally;
        c.votes = votes.clone();
        let r = guarded(|| {
            t.reset_votes();
            for (id, v) in &votes {
                t.record_vote(*id, *v);
            }
            t.tally_votes()
        });
        l.calls += 1;
        let in_votes: Vec<Option<bool>> = incoming.iter().map(|i| c.vote_of(*i)).collect();
        let out_votes: Vec<Option<bool>> = outgoing.iter().map(|i| c.vote_of(*i)).collect();
        let verdict = match r {
            Ok((g, rj, res)) => judge_tally(&c, &in_votes, &out_votes, (g, rj, ov_of(res))),
            Err((msg, loc)) => Some(("tracker-panic-in-tally_votes".into(), format!("{} @ {}", msg, loc))),
        };
        if let Some((kind, detail)) = verdict {
            l.found.push((kind, detail, c));
            sh.stop.store(true, Ordering::Relaxed);
            return;
        }
        l.inputs += 1;
        l.c.tracker_inputs += 1;
        if digits[m - 1] != 0 || digits[m - 2] != 0 {
            l.c.tally_nonmember_votes += 1;
        }
        let mut k = m;
        let mut done = false;
        loop {
            if k == 0 {
                done = true;
                break;
            }
            k -= 1;
            digits[k] += 1;
            if digits[k] < 3 {
                break;
            }
            digits[k] = 0;
        }
        if done {
            break;
        }
    }
    // ---- has_quorum: every subset of voters + learner + stranger
    for sm in 0u32..(1 << m) {
        let set_ids: Vec<u64> = (0..m).filter(|k| sm >> k & 1 == 1).map(|k| voters_all[k]).collect();
        let mut c = base.clone();
        c.what = What::HasQuorum;
        c.set = set_ids.clone();
        let set: FxSet = set_ids.iter().copied().collect();
        let r = guarded(|| t.has_quorum(&set));
        l.calls += 1;
        let iv: Vec<Option<bool>> = incoming.iter().map(|i| set_ids.contains(i).then_some(true)).collect();
        let ov: Vec<Option<bool>> = outgoing.iter().map(|i| set_ids.contains(i).then_some(true)).collect();
        let want = def_vote([&iv, &ov]) == OV::Won;
        let verdict = match r {
            Ok(got) if got == want => None,
            Ok(got) => Some((
                "tracker-has-quorum-mismatch".to_string(),
                format!("has_quorum = {} but the set {} a majority of each non-empty half", got, if want { "contains" } else { "does not contain" }),
            )),
            Err((msg, loc)) => Some(("tracker-panic-in-has_quorum".into(), format!("{} @ {}", msg, loc))),
        };
        if let Some((kind, detail)) = verdict {
            l.found.push((kind, detail, c));
            sh.stop.store(true, Ordering::Relaxed);
            return;
        }
        l.inputs += 1;
        l.c.tracker_inputs += 1;
    }
}

fn build_tasks(tier: &str) -> Vec<Task> {
    let thorough = tier == "thorough";
    let mut tasks = vec![];
    for u in 0..UNIVERSES.len() {
        for n in 0..=9usize {
            let (iv, gv) = if n <= 7 { (4u64, 3u64) } else { (3, 2) };
            // quick: the two largest sizes of each path (7 and 9) only over the first universe
            let full = thorough || u == 0 || (n != 7 && n != 9);
            if full {
                let base = (1 + iv * gv) as u8;
                // split big enumerations by their leading digits
                let split = if n >= 7 { 2 } else if n >= 5 { 1 } else { 0 };
                let mut prefixes: Vec<Vec<u8>> = vec![vec![]];
                for _ in 0..split {
                    prefixes = prefixes.iter().flat_map(|p| (0..base).map(move |d| { let mut q = p.clone(); q.push(d); q })).collect();
                }
                for p in prefixes {
                    tasks.push(Task::MajCommit { u, n, build: 0, iv, gv, prefix: p });
                }
            }
            tasks.push(Task::MajVotes { u, n, build: 0 });
            if n <= 5 {
                tasks.push(Task::MajCommit { u, n, build: 1, iv, gv, prefix: vec![] });
                tasks.push(Task::MajVotes { u, n, build: 1 });
            }
        }
    }
    let ju = if thorough { JOINT_UNIVERSES.len() } else { 1 };
    for u in 0..ju {
        for im in 0u32..32 {
            for om in 0u32..32 {
                if im == 0 && om != 0 {
                    continue; // not constructible: a joint config needs a non-empty incoming half
                }
                // quick: acked index in 0..=2 over the union, thorough: 0..=3
                tasks.push(Task::Joint { u, im, om, iv: if thorough { 4 } else { 3 }, gv: 3 });
            }
        }
    }
    for im in 0u32..16 {
        for om in 0u32..16 {
            if im == 0 && om != 0 {
                continue;
            }
            tasks.push(Task::Tracker { im, om });
        }
    }
    tasks.sort_by_key(|t| t.order());
    tasks
}

pub fn run(tier: &str, seed: u64, budget_s: f64, threads: usize) -> CompResult {
    let t0 = Instant::now();
    let tasks = build_tasks(tier);
    let sh = Shared {
        stop: AtomicBool::new(false),
        timed_out: AtomicBool::new(false),
        deadline: t0 + std::time::Duration::from_secs_f64((budget_s * 0.9).max(1.0)),
    };
    let next = AtomicUsize::new(0);
    let skipped = AtomicUsize::new(0);
    let merged: Mutex<Vec<Local>> = Mutex::new(vec![]);
    let threads = threads.clamp(1, 64);
    std::thread::scope(|s| {
        for _ in 0..threads {
            s.spawn(|| {
                let mut l = Local::default();
                loop {
                    let ti = next.fetch_add(1, Ordering::Relaxed);
                    if ti >= tasks.len() {
                        break;
                    }
                    if sh.stop.load(Ordering::Relaxed) || sh.timed_out.load(Ordering::Relaxed) {
                        skipped.fetch_add(1, Ordering::Relaxed);
                        continue;
                    }
                    if Instant::now() > sh.deadline {
                        sh.timed_out.store(true, Ordering::Relaxed);
                        skipped.fetch_add(1, Ordering::Relaxed);
                        continue;
                    }
                    run_task(&tasks[ti], ti, seed, &mut l, &sh);
                }
                merged.lock().unwrap().push(l);
            });
        }
    });
    let locals = merged.into_inner().unwrap();
    let mut cnt = Cnt::default();
    let (mut states, mut transitions) = (0u64, 0u64);
    let mut found: Vec<(String, String, Case)> = vec![];
    let mut samples_all: Vec<(Case, String)> = vec![];
    for l in locals {
        states += l.inputs;
        transitions += l.calls;
        cnt.merge(&l.c);
        found.extend(l.found);
        samples_all.extend(l.samples);
    }

    // violations: per kind the smallest case, confirmed by a from-scratch evaluation
    found.sort_by_key(|(k, _, c)| (k.clone(), c.incoming.len() + c.outgoing.len(), c.acks.len() + c.votes.len() + c.set.len(), format!("{:?}", c)));
    let mut violations: Vec<(String, String, Value)> = vec![];
    for (kind, detail, case) in found {
        if violations.iter().any(|(k, _, _)| *k == kind) || violations.len() >= MAX_KINDS {
            continue;
        }
        let confirmed = eval_case(&case);
        transitions += 1;
        let detail = format!("{} — input {}", detail, case.to_json());
        match confirmed {
            Ok((_, Some((k2, _)))) if k2 == kind => violations.push((kind, detail, case.to_json())),
            Err(_) if kind.contains("panic") => violations.push((kind, detail, case.to_json())),
            other => violations.push((
                "machinery-violation-did-not-confirm".into(),
                format!("fast path reported [{}] {} but the from-scratch evaluation gave {:?}", kind, detail, other),
                case.to_json(),
            )),
        }
    }

    // determinism self-check: re-evaluate sampled inputs from scratch (fresh configuration,
    // stock HashMap AckIndexer) and compare the observed result with the recorded one
    let mut validated = 0u64;
    let stride = (samples_all.len() / 400).max(1);
    for (k, (case, observed)) in samples_all.iter().enumerate() {
        if k % stride != 0 {
            continue;
        }
        validated += 1;
        transitions += 1;
        let r = eval_case(case);
        let same = matches!(&r, Ok((o, _)) if o == observed);
        if !same && violations.len() < MAX_KINDS && !violations.iter().any(|(k, _, _)| k == "re-evaluation-diverged") {
            violations.push((
                "re-evaluation-diverged".into(),
                format!("first evaluation observed {} but a second, from-scratch evaluation gave {:?} — input {}", observed, r, case.to_json()),
                case.to_json(),
            ));
        }
    }

    let mut samples = vec![];
    for k in [0usize, samples_all.len() / 2, samples_all.len().saturating_sub(1)] {
        if let Some((c, o)) = samples_all.get(k) {
            samples.push(json!({"engine": ENGINE, "input": c.to_json(), "observed": o}));
        }
    }

    let timed_out = sh.timed_out.load(Ordering::Relaxed);
    let must = [
        cnt.majority_commit_inputs,
        cnt.majority_vote_inputs,
        cnt.joint_commit_inputs,
        cnt.joint_vote_inputs,
        cnt.tracker_inputs,
        cnt.stack_path,
        cnt.heap_path,
        cnt.empty_config,
        cnt.joint_one_half_empty,
        cnt.joint_overlapping,
        cnt.joint_halves_disagree,
        cnt.missing_acks,
        cnt.ties_at_quorum,
        cnt.gc_formula_case,
        cnt.gc_below_plain,
        cnt.votes_won,
        cnt.votes_lost,
        cnt.votes_pending,
        cnt.joint_won_one_half_only,
        cnt.tally_nonmember_votes,
        cnt.alt_layout_inputs,
    ];
    let nonvacuous = !violations.is_empty() || timed_out || must.iter().all(|x| *x > 0);
    let mut stats = cnt.json();
    stats["tasks"] = json!(tasks.len());
    stats["tasks_skipped"] = json!(skipped.load(Ordering::Relaxed));
    stats["id_universes"] = json!(UNIVERSES.len());
    stats["joint_pairs_not_constructible_via_public_api"] = json!(31);
    let mut cap_hit = None;
    if timed_out {
        cap_hit = Some(format!("time budget ({:.0}s) exhausted; {} of {} tasks skipped", budget_s, skipped.load(Ordering::Relaxed), tasks.len()));
    } else if !violations.is_empty() {
        cap_hit = Some("stopped at the first violations".into());
    }
    CompResult {
        engine: ENGINE.into(),
        states,
        transitions,
        validated,
        exhaustive: cap_hit.is_none(),
        cap_hit,
        samples,
        stats,
        violations,
        nonvacuous,
        wall_s: t0.elapsed().as_secs_f64(),
    }
}

/// Re-evaluates one recorded input from scratch (twice). 1 if the disagreement with the
/// definitions (or the panic) reproduces, 0 if not, 2 on malformed input.
pub fn replay(j: &Value) -> i32 {
    let cj = if j.get("ops").is_some_and(|o| o.is_object()) { &j["ops"] } else { j };
    let Some(case) = Case::from_json(cj) else {
        eprintln!("quorum replay: malformed input");
        return 2;
    };
    let prop = j.get("property").and_then(|x| x.as_str()).unwrap_or("C11");
    println!("input: {}", case.to_json());
    let a = eval_case(&case);
    let b = eval_case(&case);
    if format!("{:?}", a) != format!("{:?}", b) {
        println!("MACHINERY ERROR: two evaluations of the same input diverged");
        return 2;
    }
    match a {
        Ok((observed, None)) => {
            println!("raft-rs returned {}; agrees with the definitions", observed);
            println!("no violation of {} on this replay", prop);
            0
        }
        Ok((_, Some((kind, detail)))) if kind.starts_with("machinery") => {
            println!("MACHINERY ERROR: [{}] {}", kind, detail);
            2
        }
        Ok((observed, Some((kind, detail)))) => {
            println!("raft-rs returned {}: [{}] {}", observed, kind, detail);
            println!("VIOLATION property={} engine={} kind={}", prop, ENGINE, kind);
            1
        }
        Err((msg, loc)) => {
            let kind = panic_kind(&case);
            println!("raft-rs panicked: {} @ {}", msg, loc);
            println!("VIOLATION property={} engine={} kind={}", prop, ENGINE, kind);
            1
        }
    }
}
