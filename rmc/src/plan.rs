//! Which scenarios / engines decide which property, per tier (DESIGN §4).

use crate::types::*;
use crate::world::World;

pub struct Plan {
    pub scenarios: Vec<(&'static str, u8)>,
    pub components: Vec<&'static str>,
    pub required_stats: Vec<Stat>,
    pub explanation: String,
    pub assumptions: Vec<String>,
}

pub const PROPS: [&str; 20] = [
    "C01", "C02", "C03", "C04", "C05", "C06", "C07", "C08", "C09", "C10", "C11", "C12", "C13",
    "C14", "C15", "C16", "C17", "C18", "C19", "C20",
];

fn base_assumptions() -> Vec<String> {
    vec![
        "every transition is an execution of the code in /repo built with --cfg tikv_raft_rs_verif (hooks are additive: derive(Clone), read-only views, deterministic election timeout)".into(),
        "the simulated application follows the documented Ready/advance contract (DESIGN.md §2.4): writes snapshot, entries, hard state in that order; persisted messages only after fsync (async mode: notify-then-send and, in the -loose scenarios, send-then-notify); apply only what was handed out; fsync skipped only when must_sync is false (the -nosync scenarios)".into(),
        "a crash keeps a prefix of the unsynced write sequence (write-ahead-log assumption); in the -split scenarios the applied state (index, configuration, state-machine digest) lives in a store of its own with synchronous writes, so a restart may pass Config::applied ahead of the recovered commit index".into(),
        "storage: SimStorage with MemStorage semantics and the documented Storage contract; in the -memq scenarios compaction forgets the term of first_index-1 as MemStorage::compact does".into(),
        "apply-before-persist (-unp scenarios) is switched on by the application through set_max_apply_unpersisted_log_limit once a Ready round has shown the node leading (Config's value is reset by Raft::new and by every step-down)".into(),
        "bounds: the scenario caps listed per run (terms, log length, per-kind fault and client budgets); payloads are opaque unique tags".into(),
        "election timeouts are the deterministic function min + (id + term + salt) % (max - min) of hook H3 (constant when max = min + 1)".into(),
    ]
}

pub fn plan_for(prop: &str, tier: &str) -> Plan {
    let q = tier != "thorough";
    let mut p = Plan {
        scenarios: vec![],
        components: vec![],
        required_stats: vec![],
        explanation: String::new(),
        assumptions: base_assumptions(),
    };
    let sc = |v: &[(&'static str, u8)]| -> Vec<(&'static str, u8)> { v.to_vec() };
    match prop {
        "C01" => {
            p.scenarios = if q {
                sc(&[("fig8-div", 1), ("fig8-back", 1), ("read-div", 1), ("fig8-5-cbv", 0), ("member-rm1-2v", 0), ("fig8-div-gc", 2), ("fig8-back-t4", 0), ("snap-fig8", 1), ("fig8", 1), ("fig8-div", 2), ("snap", 1), ("member", 1), ("crash3", 1)])
            } else {
                sc(&[("fig8-div", 1), ("fig8-back", 1), ("read-div", 1), ("fig8-5-cbv", 0), ("member-rm1-2v", 0), ("fig8-div-gc", 2), ("fig8-back-t4", 0), ("snap-fig8", 1), ("fig8", 1), ("fig8-div", 2), ("snap", 1), ("member", 1), ("crash3", 1), ("fig8-div", 3), ("snap", 2), ("member", 2), ("crash3", 2), ("fig8-pv", 1), ("fig8", 2), ("fig8-div", 4), ("fig8-pv", 0), ("fig8", 3)])
            };
            p.required_stats = vec![Stat::CommitAdvances, Stat::EntriesApplied, Stat::LeadersSeen];
            p.explanation = "explicit-state exploration; ghost committed-log registry: every report of an index as committed (commit index, hand-out for apply, snapshot install) must agree with the first report, and a node's retained log below its commit index must agree with the registry after every API call".into();
        }
        "C02" => {
            p.scenarios = if q {
                sc(&[("elect", 1), ("elect-pv", 1), ("elect-cq", 1), ("elect-pvcq", 1), ("elect-stale", 0), ("lag2", 0), ("lag2-catchup", 0), ("stale", 1), ("member", 1), ("crash3", 1), ("xfer-abort", 0), ("xfer-race", 0), ("elect-pvmig-late", 0), ("xfer-race", 1), ("elect", 3)])
            } else {
                sc(&[("elect", 1), ("elect-pv", 1), ("elect-cq", 1), ("elect-pvcq", 1), ("elect-stale", 0), ("lag2", 0), ("lag2-catchup", 0), ("stale", 1), ("member", 1), ("crash3", 1), ("xfer-abort", 0), ("xfer-race", 0), ("elect-pvmig-late", 0), ("xfer-race", 1), ("elect", 3), ("elect-prio", 3), ("elect-pvcq", 3), ("xfer", 1), ("stale", 2), ("lag2", 1), ("member-joint", 2), ("member", 2), ("elect", 2), ("elect", 4)])
            };
            p.required_stats = vec![Stat::LeadersSeen, Stat::VotesGranted];
            p.explanation = "explicit-state exploration; ghost leader_of[term] checked after every API call on every node, across crashes and restarts (crash cuts between receiving a vote request and persisting the vote included)".into();
        }
        "C03" => {
            p.scenarios = if q {
                sc(&[("fig8-div", 1), ("fig8", 1), ("fig8-div", 2), ("fig8-back", 1), ("fig8-back-prio", 0), ("fig8-5-cbv", 0), ("snap-lag", 0), ("snap-lazy", 0), ("elect-pvcq", 1), ("elect-prio", 1), ("elect-stale", 0), ("elect-prio-stale", 0), ("xfer", 0), ("xfer-lag2", 0), ("xfer-abort", 0)])
            } else {
                sc(&[("fig8-div", 1), ("fig8", 1), ("fig8-div", 2), ("fig8-back", 1), ("fig8-back-prio", 0), ("fig8-5-cbv", 0), ("snap-lag", 0), ("snap-lazy", 0), ("elect-pvcq", 1), ("elect-prio", 1), ("elect-stale", 0), ("elect-prio-stale", 0), ("xfer", 0), ("xfer-lag2", 0), ("xfer-abort", 0), ("fig8-div", 3), ("fig8-back-prio", 1), ("elect-prio", 3), ("xfer-abort", 1), ("xfer", 1), ("fig8", 2), ("xfer-abort", 2), ("fig8", 3)])
            };
            p.required_stats = vec![Stat::LeadersSeen, Stat::VotesGranted, Stat::PreVotesGranted, Stat::CommitAdvances];
            p.explanation = "explicit-state exploration; (a) every leader's log checked against the registry of entries committed in earlier terms after every API call, (b) every generated vote / pre-vote grant checked against the voter's own last (term, index) in its pre-state".into();
        }
        "C04" => {
            p.scenarios = if q {
                sc(&[("repl", 1), ("repl-i1-sz", 1), ("crash3", 1), ("crash2-async", 1), ("fig8-div", 1), ("fig8-div", 2), ("fig8-div-gc", 1), ("fig8-div-gc", 2), ("fig8-back", 0), ("fig8-stalehb", 1), ("read-div", 1), ("read-div", 2), ("fig8-5-cbv", 0), ("member-rm1-2v", 0), ("member-a1", 0), ("member-a1", 1), ("repl-lazy3-sz", 0), ("fig8-back-t4", 0), ("crash2-async-loose", 1), ("relead5", 1), ("relead5", 2), ("member-joint", 1), ("member", 1), ("fig8", 1)])
            } else {
                sc(&[("repl", 1), ("repl-i1-sz", 1), ("crash3", 1), ("crash2-async", 1), ("fig8-div", 1), ("fig8-div", 2), ("fig8-div-gc", 1), ("fig8-div-gc", 2), ("fig8-back", 0), ("fig8-stalehb", 1), ("read-div", 1), ("read-div", 2), ("fig8-5-cbv", 0), ("member-rm1-2v", 0), ("member-a1", 0), ("member-a1", 1), ("repl-lazy3-sz", 0), ("fig8-back-t4", 0), ("crash2-async-loose", 1), ("relead5", 1), ("relead5", 2), ("member-joint", 1), ("member", 1), ("fig8", 1), ("repl-async", 1), ("repl-gc", 1), ("repl-skip", 1), ("repl", 2), ("crash3-async", 1), ("member-joint", 2), ("member", 2), ("crash3-async-loose", 1), ("repl", 3)])
            };
            p.required_stats = vec![Stat::CommitAdvances, Stat::Crashes];
            p.explanation = "explicit-state exploration; at every leader commit advance: entry of own term and durable (on the simulated disks, not in raft-rs bookkeeping) on a majority of each half of the leader's configuration; non-leader commit never beyond a leader's".into();
        }
        "C05" => {
            p.scenarios = if q {
                sc(&[("fig8-back", 0), ("fig8-back", 1), ("fig8", 1), ("fig8-div", 2), ("repl", 1), ("repl-div", 1), ("repl-mix", 1), ("repl-lazy3-sz", 0), ("crash3", 1), ("fig8-back-t4", 0), ("repl-batch", 1)])
            } else {
                sc(&[("fig8-back", 0), ("fig8-back", 1), ("fig8", 1), ("fig8-div", 2), ("repl", 1), ("repl-div", 1), ("repl-mix", 1), ("repl-lazy3-sz", 0), ("crash3", 1), ("fig8-back-t4", 0), ("repl-batch", 1), ("repl-div", 2), ("repl-mix", 3), ("fig8-div", 3), ("fig8-back", 2), ("repl", 2), ("crash3", 2), ("fig8", 2), ("repl-batch", 2), ("stale-lazy-gbatch", 1)])
            };
            p.required_stats = vec![Stat::Truncations, Stat::CommitAdvances];
            p.explanation = "explicit-state exploration; pairwise log matching over all live nodes (stable + unstable entries) after every API call; leader append-only and committed-prefix immutability as pre/post relations of every call".into();
        }
        "C06" => {
            p.scenarios = if q {
                sc(&[("crash2", 1), ("crash3", 1), ("crash2-async", 1), ("over", 0), ("crash2-lazy-gpv", 2), ("repl-lazy3-sz", 0), ("member-c4", 0), ("member-fresh", 0), ("member-fresh", 1), ("xfer-race", 0), ("crash2-async-loose", 1), ("elect-stale-nosync", 0), ("stale", 0), ("stale-lazy", 0), ("stale-async", 0), ("snap-req", 0), ("crash3-lazy", 1)])
            } else {
                sc(&[("crash2", 1), ("crash3", 1), ("crash2-async", 1), ("over", 0), ("crash2-lazy-gpv", 2), ("repl-lazy3-sz", 0), ("member-c4", 0), ("member-fresh", 0), ("member-fresh", 1), ("xfer-race", 0), ("crash2-async-loose", 1), ("elect-stale-nosync", 0), ("stale", 0), ("stale-lazy", 0), ("stale-async", 0), ("snap-req", 0), ("crash3-lazy", 1), ("crash2", 3), ("crash3", 2), ("stale-lazy", 1), ("stale-async", 1), ("crash3-async", 1), ("crash2-async-loose", 2), ("elect", 2), ("crash3", 3)])
            };
            p.required_stats = vec![Stat::MsgsReleased, Stat::AcksReleased, Stat::VotesGranted, Stat::Crashes, Stat::Restarts];
            p.explanation = "explicit-state exploration over every crash point of the Ready round (after ready(), after k of the writes, after fsync, after persisted sends, after advance) in sync, async and lazy application modes; every released message checked against the node's durable disk at release time; one vote per term across incarnations; term monotone".into();
        }
        "C07" => {
            p.scenarios = if q {
                sc(&[("crash2", 1), ("crash2-lag", 1), ("crash2-page", 1), ("crash2-page-adv", 3), ("snap-adv", 1), ("member-joint-adv", 1), ("crash2-unpmax", 2), ("crash3-unpmax", 1), ("crash2-split", 1), ("crash2-split", 2), ("over", 0), ("over-two", 0), ("repl-batch-async-a1-unp-page-pre2", 0), ("crash2-unp", 2), ("crash2-async", 1), ("crash2-async-loose", 1), ("elect-stale", 0), ("fig8-div", 1), ("repl-div", 1), ("repl-mix-unp", 1), ("snap", 1), ("crash3", 1), ("repl", 1)])
            } else {
                sc(&[("crash2", 1), ("crash2-lag", 1), ("crash2-page", 1), ("crash2-page-adv", 3), ("snap-adv", 1), ("member-joint-adv", 1), ("crash2-unpmax", 2), ("crash3-unpmax", 1), ("crash2-split", 1), ("crash2-split", 2), ("over", 0), ("over-two", 0), ("repl-batch-async-a1-unp-page-pre2", 0), ("crash2-unp", 2), ("crash2-async", 1), ("crash2-async-loose", 1), ("elect-stale", 0), ("fig8-div", 1), ("repl-div", 1), ("repl-mix-unp", 1), ("snap", 1), ("crash3", 1), ("repl", 1), ("crash3-lag", 1), ("crash3-page", 1), ("crash3-unp", 1), ("crash3-lazy", 1), ("crash2", 3), ("snap", 2), ("crash3-async", 1), ("crash3-split", 1), ("crash2-split", 3), ("repl-async-a1-unp", 0), ("repl-async-a1-unp-page", 0), ("snap-lazy-unp", 1), ("crash3", 2)])
            };
            p.required_stats = vec![Stat::ReadyChecked, Stat::EntriesApplied, Stat::HasReadyCloneChecks, Stat::Truncations, Stat::AppliedUnpersisted, Stat::SimpleAdvances];
            p.explanation = "explicit-state exploration of every legal RawNode call history (advance | advance_append | advance_append_async + on_persist_ready in any batching, apply lag, pagination, truncation, snapshot, restart); application-side cursor model of the entries / hard state / committed-entries hand-off; has_ready() compared with ready() on a clone in every state".into();
        }
        "C08" => {
            p.scenarios = if q {
                sc(&[("read", 1), ("read-single", 0), ("read-single", 1), ("read-swap", 0), ("read-swap", 1), ("read-regain", 1), ("read-emptyctx", 1), ("read-rm1", 1), ("read-rm1", 2), ("read-div", 2), ("read-five", 0), ("read-joint1", 0), ("read-joint1", 1), ("read-five", 1), ("read-cc", 0), ("read-lagf", 2), ("read", 2)])
            } else {
                sc(&[("read", 1), ("read-single", 0), ("read-single", 1), ("read-swap", 0), ("read-swap", 1), ("read-regain", 1), ("read-emptyctx", 1), ("read-rm1", 1), ("read-rm1", 2), ("read-div", 2), ("read-five", 0), ("read-joint1", 0), ("read-joint1", 1), ("read-five", 1), ("read-cc", 0), ("read-lagf", 2), ("read", 2), ("read-nofwd", 2), ("member-rm1-2v", 1), ("read-single", 2), ("read", 3), ("read-cc", 1), ("read", 4), ("read", 5)])
            };
            p.required_stats = vec![Stat::ReadStates];
            p.explanation = "explicit-state exploration; ghost max commit index over all nodes recorded when a read is issued; every ReadState in any Ready must be returned at the issuer with index >= that value".into();
        }
        "C09" => {
            p.scenarios = if q {
                sc(&[("member-joint", 1), ("member-rm1", 0), ("member-rm1-camp", 0), ("member-joint-xe", 1), ("read-swap-camp", 1), ("snap-cclag", 0), ("snap-cclag", 1), ("member-auto-al", 0), ("member-rm1-2v", 0), ("member-mix-page", 0), ("member-joint-al", 0), ("member-jd", 0), ("member-a1", 0), ("snap-jback", 0), ("xfer-cc-al", 0), ("member-fasync", 0), ("member", 1), ("member-eager", 1), ("member-mix", 0)])
            } else {
                sc(&[("member-joint", 1), ("member-rm1", 1), ("member-rm1-camp", 0), ("member-joint-xe", 1), ("read-swap-camp", 1), ("snap-cclag", 0), ("snap-cclag", 1), ("member-auto-al", 0), ("member-rm1-2v", 0), ("member-mix-page", 0), ("member-joint-al", 0), ("member-jd", 0), ("member-a1", 0), ("snap-jback", 0), ("xfer-cc-al", 0), ("member-fasync", 0), ("member-mix", 1), ("member", 1), ("member-rm1-2v", 1), ("member-eager", 1), ("member-joint", 2), ("member", 2), ("member-rm1", 2), ("member", 3), ("member-async", 1), ("member-mix", 2)])
            };
            p.required_stats = vec![Stat::CcAccepted, Stat::CcNeutralised, Stat::ConfApplied, Stat::JointEntered];
            p.explanation = "explicit-state exploration of V1/V2 proposals at leader and follower with apply lag, elections, restarts; proposal filter relation on every accepted conf-change proposal; no election over an unapplied committed change; every node's configuration compared with the reference fold of the applied membership entries".into();
        }
        "C10" => {
            p.scenarios = if q {
                sc(&[("fig8-div-live", 1), ("snap-live", 0), ("flow-elect-inh2-live", 1), ("fig8-back-hiprio-live", 0), ("snap-stall-live", 0), ("snap-busy-live", 0), ("read-swap-crash-live", 0), ("snap-cq2-live", 0), ("elect-pvcq-dead1-slow3-live", 0), ("xfer-abort-lost-pvcq-live", 0), ("member-promo-live", 0), ("repl-skip-dropped-live", 0), ("repl-dropped-live", 0), ("xfer-live", 0), ("stale-pvcq-live", 0), ("flow-elect-live", 0), ("member-live", 0)])
            } else {
                sc(&[("fig8-div-live", 1), ("snap-live", 0), ("flow-elect-inh2-live", 1), ("fig8-back-hiprio-live", 0), ("snap-stall-live", 0), ("snap-busy-live", 0), ("read-swap-crash-live", 0), ("snap-cq2-live", 0), ("elect-pvcq-dead1-slow3-live", 0), ("xfer-abort-lost-pvcq-live", 0), ("member-promo-live", 0), ("repl-skip-dropped-live", 0), ("repl-dropped-live", 0), ("xfer-live", 0), ("stale-pvcq-live", 0), ("flow-elect-live", 0), ("member-live", 0), ("flow-live", 0), ("snap-live", 1), ("snap-cq2-live", 1), ("member-live", 1), ("xfer-abort-pvcq-live", 0), ("read-swap-crash-live", 1), ("snap-busy-live", 1), ("fig8-div-live", 2), ("flow-live", 1), ("xfer-live", 1), ("fig8-live", 1)])
            };
            p.required_stats = vec![Stat::LiveSuffixRuns];
            p.explanation = "bounded convergence from every reachable state: for every distinct state of the prefix spaces a deterministic fault-free suffix (restart, complete persistence, report snapshots, (n+3)*max_timeout rounds of tick+deliver-to-quiescence, fresh proposal, same again) must end with one leader, converged logs and the fresh entry applied on every running member; a state counts as a violation only if it fails under all three election-timeout schedulers; when a MsgSnapshot takes part in the recovery the suffix is run a second time with snapshots on a slow side channel (2*max_timeout+2 rounds per snapshot, heartbeats and appends flowing, status reported on arrival)".into();
            p.assumptions.push("C10 is a bounded rendering of an unbounded liveness statement: convergence within R = (n+3)*max_election_timeout rounds".into());
            p.assumptions.push("a node that applied its own removal is shut down by the application; a peer that is not a member of the configuration in force is stopped unless pre_vote and check_quorum are on".into());
        }
        "C13" => {
            p.scenarios = if q {
                sc(&[("flow", 0), ("flow-cap", 0), ("repl-i1-sz", 1), ("repl", 1), ("repl-div", 1), ("repl-mix", 1), ("repl-batch-probe", 0), ("repl-grown", 0), ("flow-elect-inh2", 1), ("flow-p3", 0), ("stale-lazy-gbatch", 0), ("snap-unr", 0), ("snap-unr", 1), ("snap", 1), ("flow-elect-inherit", 0), ("repl-batch", 1), ("flow-elect", 0), ("fig8-back-t4", 0), ("flow", 1)])
            } else {
                sc(&[("flow", 0), ("flow-cap", 0), ("repl-i1-sz", 1), ("repl", 1), ("repl-div", 1), ("repl-mix", 1), ("repl-batch-probe", 0), ("repl-grown", 0), ("flow-elect-inh2", 1), ("flow-p3", 0), ("stale-lazy-gbatch", 0), ("snap-unr", 0), ("snap-unr", 1), ("snap", 1), ("flow-elect-inherit", 0), ("repl-batch", 1), ("flow-elect", 0), ("fig8-back-t4", 0), ("flow", 1), ("flow-div", 1), ("flow-batch", 1), ("repl-fetch", 1), ("flow-cap", 1), ("repl-mix", 3), ("repl", 2), ("flow", 2), ("repl-batch", 2), ("stale-lazy-gbatch", 1)])
            };
            p.required_stats = vec![Stat::AppendsChecked, Stat::HeartbeatsChecked, Stat::WindowFull, Stat::ProbePaused, Stat::ProposalsAccepted, Stat::ProposalsRefused];
            p.explanation = "explicit-state exploration over all ack/reject/heartbeat-response orders incl. stale, duplicated and reordered ones and runtime window resizing; reference window model per (leader, follower) driven by generated and delivered messages; every generated MsgAppend / MsgHeartbeat checked for well-formedness against the leader's own log; ghost of uncommitted payload bytes".into();
        }
        "C15" => {
            p.scenarios = if q {
                sc(&[("snap", 1), ("snap-joint", 0), ("snap-jback", 0), ("snap-jauto", 0), ("snap-cclag", 0), ("snap-prec", 0), ("snap-prec", 1), ("snap-unr", 0), ("snap-busy", 0), ("snap-busy", 1), ("snap-fig8", 1), ("snap-req", 0), ("snap", 2)])
            } else {
                sc(&[("snap", 1), ("snap-joint", 0), ("snap-jback", 0), ("snap-jauto", 0), ("snap-cclag", 0), ("snap-prec", 0), ("snap-prec", 1), ("snap-unr", 0), ("snap-busy", 0), ("snap-busy", 1), ("snap-fig8", 1), ("snap-req", 0), ("snap", 2), ("snap-req", 1), ("snap-memq", 1), ("snap-req-memq", 0), ("snap-fig8", 2), ("snap-joint", 1), ("snap", 3), ("snap-joint", 2), ("snap", 4)])
            };
            p.required_stats = vec![Stat::SnapshotsInstalled, Stat::SnapshotsSent];
            p.explanation = "explicit-state exploration over compaction points, lost/duplicated/stale/reordered MsgSnapshot, status reports, follower crash around the install; install / ignore / fast-forward post-conditions and the leader's send condition as pre/post relations".into();
        }
        "C16" => {
            p.scenarios = if q {
                sc(&[("lease", 1), ("lease-stalegrant", 0), ("lease-hb2", 1), ("elect-pv", 1), ("elect-pv-four", 0), ("elect-pv-four", 1), ("elect-pv-prio", 1), ("elect-pvcq", 1), ("lease", 2), ("lease-req", 1), ("elect-pvcq-dead1-minx", 0), ("lease5", 0)])
            } else {
                sc(&[("lease", 1), ("lease-stalegrant", 0), ("lease-hb2", 1), ("elect-pv", 1), ("elect-pv-four", 0), ("elect-pv-four", 1), ("elect-pv-prio", 1), ("elect-pvcq", 1), ("lease", 2), ("lease-req", 1), ("elect-pvcq-dead1-minx", 0), ("lease5", 0), ("lease", 3), ("lease-hb2", 3), ("elect-pvcq", 3), ("lease-req", 2), ("lease5", 1), ("lease", 4)])
            };
            p.required_stats = vec![Stat::PreVoteDelivered, Stat::PreVotesGranted, Stat::TermRaises];
            p.explanation = "explicit-state exploration; (a) term and vote unchanged over every delivered MsgRequestPreVote; (b) with pre_vote every term raise justified by the monitor's own tally of delivered grants, a peer's higher term or MsgTimeoutNow; (c) LEASE driver: all behaviours of the minority (ticks, campaigns, crash, restart, stale and duplicated traffic) against a majority in lock-step: leader keeps leading, majority keeps its term".into();
            p.assumptions.push("C16(c) is checked over a finite lock-step horizon (number of heartbeat rounds listed per run)".into());
        }
        "C17" => {
            p.scenarios = if q {
                sc(&[("xfer", 0), ("xfer-lag", 0), ("xfer-lag2", 0), ("xfer-race", 0), ("xfer-abort", 0), ("xfer-abort-pvcq", 0), ("xfer-cc-al", 0), ("xfer-pipe", 0), ("xfer-lag-cc", 0), ("xfer-race-two", 0), ("xfer", 1), ("xfer-race", 1), ("xfer-lag-cc-dem2", 0)])
            } else {
                sc(&[("xfer", 0), ("xfer-lag", 0), ("xfer-lag2", 0), ("xfer-race", 0), ("xfer-abort", 0), ("xfer-abort-pvcq", 0), ("xfer-cc-al", 0), ("xfer-pipe", 0), ("xfer-lag-cc", 0), ("xfer-race-two", 0), ("xfer", 1), ("xfer-race", 1), ("xfer-lag-cc-dem2", 0), ("xfer-pipe", 1), ("xfer-abort", 1), ("xfer-pvcq", 1), ("xfer-lag", 1), ("xfer-abort", 2), ("xfer-lag2", 1), ("xfer-race", 2), ("xfer", 2), ("xfer", 3)])
            };
            p.required_stats = vec![Stat::TransfersStarted, Stat::TimeoutNowSent, Stat::ProposalsRefused];
            p.explanation = "explicit-state exploration over all targets (voters, learner, unknown id, the leader itself), repeated and competing requests at leader and follower, lagging target, message loss; MsgTimeoutNow only to a caught-up target, proposals refused while pending, abort within election_tick leader ticks or when the target leaves the voters, bad targets are no-ops".into();
        }
        "C20" => {
            p.scenarios = if q {
                sc(&[("elect", 1), ("fig8-div", 1), ("crash2", 1), ("over", 0), ("crash2-split", 2), ("member-jd", 0), ("member-fresh", 1), ("elect-pvcq-dead1-minx", 0), ("elect-cq-dead1-minx", 0), ("read-regain", 0), ("read-regain", 1), ("snap-jauto", 0), ("crash2-page-adv", 3), ("member-fresh-api", 1), ("member-rm1-camp", 0), ("crash2-unpmax", 1), ("crash2-unpmax", 2), ("read-samectx", 0), ("read-samectx", 1), ("elect-pv-prio", 1), ("elect-nprio", 1), ("snap-selfelect", 0), ("elect-api", 1), ("snap-api", 0), ("xfer-api", 0), ("member-joint-api", 1), ("read-rm1-api", 2), ("crash2-split-api", 2), ("crash2-async", 1), ("member-joint", 1), ("lease", 1), ("snap", 0), ("snap-lazy", 0), ("snap-lag", 0), ("repl-compact-memq", 0), ("repl-compact", 0), ("xfer-lag-cc", 0), ("xfer", 0), ("repl-i1-sz", 1), ("repl-mix", 0), ("read", 1), ("flow", 0), ("flow-cap", 0), ("stale", 0), ("member-rm1", 0), ("member-rm1-2v", 0), ("xfer-abort", 0), ("member", 0), ("xfer-pipe", 0), ("crash2-async-loose", 1), ("stale-async", 0), ("stale-lazy", 0), ("snap-req", 0)])
            } else {
                sc(&[("elect", 1), ("fig8-div", 1), ("crash2", 1), ("over", 0), ("crash2-split", 2), ("member-jd", 0), ("member-fresh", 1), ("elect-pvcq-dead1-minx", 0), ("elect-cq-dead1-minx", 0), ("read-regain", 0), ("read-regain", 1), ("snap-jauto", 0), ("crash2-page-adv", 3), ("member-fresh-api", 1), ("member-rm1-camp", 0), ("crash2-unpmax", 1), ("crash2-unpmax", 2), ("read-samectx", 0), ("read-samectx", 1), ("elect-pv-prio", 1), ("elect-nprio", 1), ("snap-selfelect", 0), ("elect-api", 1), ("snap-api", 0), ("xfer-api", 0), ("member-joint-api", 1), ("read-rm1-api", 2), ("crash2-split-api", 2), ("crash2-async", 1), ("member-joint", 1), ("lease", 1), ("snap", 0), ("snap-lazy", 0), ("snap-lag", 0), ("repl-compact-memq", 0), ("repl-compact", 0), ("xfer-lag-cc", 0), ("xfer", 0), ("repl-i1-sz", 1), ("repl-mix", 0), ("read", 1), ("flow", 0), ("flow-cap", 0), ("stale", 0), ("member-rm1", 0), ("member-rm1-2v", 0), ("xfer-abort", 0), ("member", 0), ("xfer-pipe", 0), ("crash2-async-loose", 1), ("stale-async", 0), ("stale-lazy", 0), ("snap-req", 0), ("member-rm1-lazy", 1), ("member-rm1-async", 1), ("read-lease", 1), ("read-nofwd", 1), ("repl-fetch", 1), ("repl-gc", 1), ("elect-prio", 1), ("member-mix", 1), ("crash3", 1), ("repl-batch", 1), ("snap", 1), ("stale-lazy", 1), ("stale-async", 1), ("member", 1), ("crash3-lazy", 1), ("crash2-async-loose", 2), ("crash3-async", 1), ("over", 1), ("over-two", 0), ("over-loose", 0), ("fig8", 1), ("xfer", 1), ("flow", 1), ("member-jd", 1), ("elect-pv", 2), ("snap-lazy-unp", 1), ("member-rm1-api", 0), ("stale-api", 0), ("member-rm1-2v-api", 0), ("snap-req-api", 0), ("repl-compact-memq", 1), ("repl-compact", 1), ("snap-memq", 2), ("snap-fig8-memq", 1)])
            };
            p.required_stats = vec![Stat::BadMsgOffered, Stat::ReadyChecked, Stat::MsgsReleased, Stat::ApiProbes];
            p.explanation = "every API call of every explored execution runs under catch_unwind: a panic, failed assert!/debug_assert!, fatal!, index out of bounds or arithmetic overflow (debug-assertions and overflow-checks are on) is a violation; in every state local-only message types and responses from non-members are offered to step() on a clone and must be rejected with the documented error without changing the state digest; in the -api scenarios every public RawNode entry point (read_index, request_snapshot, ping, campaign, transfer_leader / report_unreachable / report_snapshot with member, own and unknown ids, propose, propose_conf_change) is offered to a clone of every node in every state and must not panic".into();
        }
        "C11" => {
            p.components = vec!["quorum"];
            p.scenarios = if q { sc(&[("snap-gc", 0), ("member-gc", 0), ("snap-gc", 1), ("repl-gc", 1), ("fig8-div-gc", 1), ("elect", 1), ("member-joint", 1), ("read-swap", 1), ("elect-pv", 1)]) } else { sc(&[("snap-gc", 0), ("member-gc", 0), ("snap-gc", 1), ("repl-gc", 1), ("fig8-div-gc", 1), ("fig8-div-gc", 2), ("snap-gc", 2), ("repl-gc", 2), ("member-gc", 1), ("elect", 1), ("member-joint", 1), ("read-swap", 1), ("elect-pv", 1), ("member-joint-gc", 0), ("elect", 2), ("member-joint", 2)]) };
            p.required_stats = vec![Stat::GroupCommitChecked, Stat::TalliesChecked];
            p.explanation = "complete enumeration of voter sets, acked-index vectors, vote maps and group assignments against the definitional quorum arithmetic; plus cluster scenarios with group commit on (snapshot install, replication, Figure-8 hand-over) in which the tracker must keep the setting, assign_commit_groups (unknown ids listed first) must reach every tracked member, every commit is checked against the durable quorum rule and, when every voter has a group, against durability in at least two groups; in election and joint-membership scenarios every election win is checked against the vote grants actually released for that term (a majority of each voter set of the winner's configuration)".into();
            p.assumptions = vec!["value bounds listed in the run statistics (config sizes 0-9, indexes 0-3, groups 0-2)".into()];
        }
        "C19" => {
            p.components = vec!["memstorage"];
            p.explanation = "joint breadth-first search over (MemStorage, SimStorage, snapshot-point+entries model) under every mutation history within documented preconditions; every query compared after every operation".into();
            p.assumptions = vec!["value bounds: index and term bounds listed in the run statistics; mutations only within documented preconditions (compaction <= last index, commit_to of stored entries)".into()];
        }
        "C12" => {
            p.components = vec!["confchange"];
            p.scenarios = if q { sc(&[("snap-shrink", 0), ("snap-shrink", 1), ("member-joint", 1), ("member", 1), ("snap-jback", 0)]) } else { sc(&[("snap-shrink", 0), ("snap-shrink", 1), ("member-joint", 1), ("member", 1), ("snap-jback", 0), ("snap-joint", 1), ("member-joint", 2), ("member", 2), ("snap-shrink", 2)]) };
            p.required_stats = vec![Stat::ConfApplied, Stat::SnapshotsInstalled];
            p.explanation = "joint breadth-first search over (ProgressTracker, reference configuration) pairs from every valid configuration over a small id universe under every change list through simple / enter_joint / leave_joint; invariants, error atomicity, restore round trip and quorum intersection over all subset pairs checked after every call; plus cluster scenarios (membership changes, snapshot installs whose configuration drops a peer the node tracked, restarts) in which after every API call the tracker must hold progress for exactly the members of the node's active configuration".into();
            p.assumptions = vec!["value bounds: id universe and change-list lengths as listed in the run statistics".into()];
        }
        "C14" => {
            p.components = vec!["raftlog"];
            p.explanation = "joint breadth-first search over (RaftLog<SimStorage> incl. Unstable and storage, plain sequence model) pairs under every legal operation (leader append, follower maybe_append incl. conflicts at every position, commit, the ready / stable / persist-notification cycle incl. stale notifications, snapshot restore, apply, compaction) until fixpoint; every observer compared after every operation".into();
            p.assumptions = vec!["value bounds: log index, term and number of outstanding readies as listed in the run statistics; operations only within the call orders RawNode/Raft can produce; documented panics (conflict at or below the commit index, commit beyond last index) are not in the alphabet".into()];
        }
        "C18" => {
            p.components = vec!["inflights"];
            p.explanation = "joint breadth-first search over (Inflights, bounded-FIFO model) pairs under every operation sequence until fixpoint".into();
            p.assumptions = vec!["value bounds: capacities and number of adds as listed in the run statistics; add only when not full (documented precondition)".into()];
        }
        _ => {}
    }
    p
}

pub fn state_hook_for(prop: &str, _scenario: &str) -> Option<fn(&World, &mut Ctx)> {
    if prop == "C10" {
        Some(crate::live::live_hook)
    } else {
        None
    }
}

/// properties whose check evaluates has_ready()/bad messages on clones in every state
pub fn clone_checks_for(prop: &str) -> bool {
    prop == "C07" || prop == "C20"
}
