//! Which scenarios / engines decide which property, per tier (DESIGN §4).

use crate::types::*;
use crate::world::World;

pub struct Plan {
    pub scenarios: Vec<(&'static str, u8)>,
    pub components: Vec<&'static str>,
    pub required_stats: Vec<Stat>,
    pub explanation: String,
    pub assumptions: Vec<String>,
}

pub const PROPS: [&str; 20] = [
    "C01", "C02", "C03", "C04", "C05", "C06", "C07", "C08", "C09", "C10", "C11", "C12", "C13",
    "C14", "C15", "C16", "C17", "C18", "C19", "C20",
];

fn base_assumptions() -> Vec<String> {
    vec![
        "every transition is an execution of the code in /repo built with --cfg tikv_raft_rs_verif (hooks are additive: derive(Clone), read-only views, deterministic election timeout)".into(),
        "the simulated application follows the documented Ready/advance contract (DESIGN.md §2.4): writes snapshot, entries, hard state in that order; persisted messages only after fsync and notification; apply only what was handed out".into(),
        "a crash keeps a prefix of the unsynced write sequence (write-ahead-log assumption)".into(),
        "bounds: the scenario caps listed per run (terms, log length, per-kind fault and client budgets); payloads are opaque unique tags".into(),
        "election timeouts are the deterministic function min + (id + term + salt) % (max - min) of hook H3 (constant when max = min + 1)".into(),
    ]
}

pub fn plan_for(prop: &str, tier: &str) -> Plan {
    let q = tier != "thorough";
    let mut p = Plan {
        scenarios: vec![],
        components: vec![],
        required_stats: vec![],
        explanation: String::new(),
        assumptions: base_assumptions(),
    };
    match prop {
        "C01" => {
            p.scenarios = if q {
                vec![("fig8-div", 1), ("fig8", 1), ("fig8-div", 2)]
            } else {
                vec![("fig8-div", 1), ("fig8", 1), ("fig8-div", 2), ("fig8", 2), ("fig8-div", 3), ("fig8", 3), ("fig8", 4)]
            };
            p.required_stats = vec![Stat::CommitAdvances, Stat::EntriesApplied];
            p.explanation = "explicit-state exploration; ghost committed-log registry: every report of an index as committed (commit index, hand-out for apply, snapshot) must agree".into();
        }
        "C02" => {
            p.scenarios = if q {
                vec![("elect", 1), ("elect-pv", 1), ("elect-cq", 1), ("elect-pvcq", 1), ("elect", 3)]
            } else {
                vec![("elect", 1), ("elect-pv", 1), ("elect-cq", 1), ("elect-pvcq", 1), ("elect", 3), ("elect-pvcq", 3), ("elect", 2), ("elect", 4)]
            };
            p.required_stats = vec![Stat::LeadersSeen, Stat::VotesGranted];
            p.explanation = "explicit-state exploration; ghost leader_of[term] checked after every API call".into();
        }
        "C11" => {
            p.components = vec!["quorum"];
            p.explanation = "complete enumeration of voter sets, acked-index vectors, vote maps and group assignments against the definitional quorum arithmetic".into();
            p.assumptions = vec!["value bounds listed in the run statistics (config sizes 0-9, indexes 0-3, groups 0-2)".into()];
        }
        "C19" => {
            p.components = vec!["memstorage"];
            p.explanation = "joint breadth-first search over (MemStorage, SimStorage, snapshot-point+entries model) under every mutation history within documented preconditions; every query compared after every operation".into();
            p.assumptions = vec!["value bounds: index and term bounds listed in the run statistics; mutations only within documented preconditions (compaction <= last index, commit_to of stored entries)".into()];
        }
        "C18" => {
            p.components = vec!["inflights"];
            p.explanation = "joint breadth-first search over (Inflights, bounded-FIFO model) pairs under every operation sequence until fixpoint".into();
            p.assumptions = vec!["value bounds: capacities and number of adds as listed in the run statistics; add only when not full (documented precondition)".into()];
        }
        _ => {}
    }
    p
}

pub fn state_hook_for(_prop: &str, _scenario: &str) -> Option<fn(&World, &mut Ctx)> {
    None
}
