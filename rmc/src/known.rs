//! Known findings: genuine defects recorded rather than repaired. Loaded once from
//! /verif/known_findings.json (never written at run time).

use crate::types::Violation;
use std::sync::OnceLock;

#[derive(Clone, Debug)]
pub struct Known {
    pub property: String,
    /// every listed substring must occur in the violation's signature (`kind`)
    pub kind_contains: Vec<String>,
    pub what: String,
}

static KNOWN: OnceLock<Vec<Known>> = OnceLock::new();

pub fn load(path: &str) {
    let mut v = vec![];
    if let Ok(s) = std::fs::read_to_string(path) {
        if let Ok(j) = serde_json::from_str::<serde_json::Value>(&s) {
            if let Some(a) = j.get("known").and_then(|x| x.as_array()) {
                for e in a {
                    let property = e.get("property").and_then(|x| x.as_str()).unwrap_or("").to_string();
                    let kind_contains = e
                        .get("kind_contains")
                        .and_then(|x| x.as_array())
                        .map(|a| a.iter().filter_map(|x| x.as_str().map(|s| s.to_string())).collect())
                        .unwrap_or_default();
                    let what = e.get("what").and_then(|x| x.as_str()).unwrap_or("").to_string();
                    if !property.is_empty() {
                        v.push(Known {
                            property,
                            kind_contains,
                            what,
                        });
                    }
                }
            }
        }
    }
    let _ = KNOWN.set(v);
}

pub fn find(v: &Violation) -> Option<&'static Known> {
    KNOWN.get().and_then(|ks| {
        ks.iter()
            .find(|k| k.property == v.prop && !k.kind_contains.is_empty() && k.kind_contains.iter().all(|s| v.kind.contains(s.as_str())))
    })
}

pub fn is_known(v: &Violation) -> bool {
    find(v).is_some()
}
