//! Scenario drivers (DESIGN §3). `build(name, level)` returns the bounded, closed system
//! to explore; level k+1 always contains level k.

use crate::types::*;

fn caps(f: impl FnOnce(&mut Counts)) -> Counts {
    let mut c = Counts::default();
    f(&mut c);
    c
}

pub fn all_names() -> Vec<&'static str> {
    vec![
        "elect", "elect-pv", "elect-cq", "elect-pvcq", "elect-prio", "fig8", "fig8-div", "fig8-5",
    ]
}

pub fn build(full_name: &str, level: u8) -> Option<Scenario> {
    let l = level;
    let mut s;
    // "-live": election timeouts range over n values so that the shortest one rotates with
    // the term (needed by the C10 suffix); otherwise identical to the base scenario
    let live = full_name.ends_with("-live");
    let name = full_name.trim_end_matches("-live");
    // "-memq": compaction as MemStorage does it (term of first_index-1 forgotten)
    let memq = name.contains("-memq");
    match name {
        // ------------------------------------------------------------ ELECT
        n if n.starts_with("elect") => {
            s = Scenario::new(name, 3);
            for n in s.nodes.iter_mut() {
                n.pre_vote = name.contains("pv");
                n.check_quorum = name.contains("cq");
            }
            if n.contains("-prio") {
                // the stale node (2) gets the priority when both variants are combined
                let k = if n.contains("-stale") { 1 } else { 2 };
                s.nodes[k].priority = 1;
            }
            if n.contains("-nprio") {
                // a negative priority is legal (an unlikely leader)
                s.nodes[1].priority = -1;
            }
            s.crashable = vec![1, 2, 3];
            s.max_index = 8;
            if n.contains("-nosync") {
                for nd in s.nodes.iter_mut() {
                    nd.skip_sync_when_allowed = true;
                }
            }
            if n.contains("-stale") {
                // node 2 missed a committed entry: its log is behind those of 1 and 3
                s.prefix = vec![
                    Action::Timeout(1),
                    Action::Settle,
                    Action::Crash(2, 9),
                    Action::Propose(1, 0),
                    Action::Settle,
                    Action::DropAll,
                    Action::Restart(2),
                ];
                s.clients_at = vec![1];
                s.timeoutable = vec![2, 3];
            }
            if n.contains("-pvmig") {
                // pre_vote is being switched off by a rolling restart: every node comes back
                // from a crash with pre_vote off
                for nd in s.nodes.iter_mut() {
                    nd.pre_vote = true;
                    nd.pre_vote_off_on_restart = true;
                }
            }
            if n.contains("-pvmig") && n.contains("-late") {
                // node 1 pre-campaigned with pre_vote on; node 3's grant is still in flight when
                // node 1 restarts with pre_vote off
                s.prefix = vec![
                    Action::Timeout(1),
                    Action::Settle0(1),
                    Action::Deliver(1, 3),
                    Action::Settle0(3),
                    Action::Crash(1, 9),
                    Action::Restart(1),
                ];
                s.timeoutable = vec![1, 2];
                s.crashable = vec![];
            }
            if n.contains("-dead1") {
                // node 1 led term 1 and is gone for good; nodes 2 and 3 still remember it
                s.prefix = vec![Action::Timeout(1), Action::Settle, Action::Crash(1, 9)];
                s.down_forever = vec![1];
                s.crashable = vec![];
                s.timeoutable = vec![2, 3];
            }
            if n.contains("-minx") {
                // min_election_tick above election_tick (a valid configuration): the check-quorum
                // lease (election_tick) ends before anybody may time out; node 3 can be ticked
                for nd in s.nodes.iter_mut() {
                    nd.min_election_tick = nd.election_tick + 2;
                    nd.max_election_tick = nd.election_tick + 3;
                }
                s.tickable = vec![3];
            }
            if n.contains("-slow3") {
                // node 3 is configured with a longer election timeout range than the others
                let et = s.nodes[2].election_tick;
                s.nodes[2].min_election_tick = 2 * et + 1;
                s.nodes[2].max_election_tick = 2 * et + 2;
            }
            if n.contains("-four") {
                // 4 voters, pre-vote. Node 1 won the pre-vote for term 1 (grants of 2 and 3),
                // campaigned and holds the real votes {1, 2} - one short of a majority; the
                // other requests were lost. Its next time-out starts a pre-vote for term 2.
                let base = Scenario::new(name, 4);
                s = Scenario { nodes: base.nodes, voters: base.voters, ..s };
                for nd in s.nodes.iter_mut() {
                    nd.pre_vote = true;
                    nd.check_quorum = name.contains("cq");
                }
                s.prefix = vec![
                    Action::Timeout(1),
                    Action::Settle0(1),
                    Action::Deliver(1, 2),
                    Action::Settle0(2),
                    Action::Deliver(1, 3),
                    Action::Settle0(3),
                    Action::Deliver(2, 1),
                    Action::Settle0(1),
                    Action::Deliver(3, 1),
                    Action::Settle0(1),
                    Action::Deliver(1, 2),
                    Action::Settle0(2),
                    Action::Deliver(2, 1),
                    Action::Settle0(1),
                    Action::DropAll,
                ];
                s.timeoutable = vec![1];
                s.crashable = vec![];
            }
            // ladder
            let (mt, to, drops, dups, cuts, crashes, reorders, beats) = match l {
                0 if n.contains("-four") => (2, 1, 0, 0, 0, 0, 0, 0),
                1 if n.contains("-four") => (3, 2, 1, 0, 0, 0, 0, 0),
                0 => (2, 2, 0, 0, 0, 1, 0, 0),
                1 if n.contains("-stale") => (3, 2, 0, 0, 1, 1, 0, 0),
                1 => (2, 2, 0, 0, 0, 0, 0, 0),
                2 => (2, 2, 1, 1, 1, 0, 0, 0),
                3 => (3, 3, 0, 0, 0, 0, 0, 0),
                4 => (3, 3, 1, 0, 1, 0, 0, 1),
                5 => (3, 3, 1, 1, 1, 1, 0, 1),
                6 => (4, 4, 1, 1, 1, 1, 1, 2),
                _ => (5, 5, 2, 2, 2, 2, 1, 3),
            };
            s.max_term = mt;
            s.caps = caps(|c| {
                c.timeouts = to;
                c.drops = drops;
                c.dups = dups;
                c.cuts = cuts;
                c.crashes = crashes;
                c.reorders = reorders;
                c.beats = beats;
                if n.contains("-minx") {
                    c.ticks = 5;
                }
            });
        }
        // ------------------------------------------------------------ FIG8
        n if n.starts_with("fig8") => {
            let n5 = n.contains("-5");
            let nn = if n5 { 5 } else { 3 };
            s = Scenario::new(name, nn);
            for nd in s.nodes.iter_mut() {
                nd.max_size_per_msg = 0; // one entry per append
                nd.pre_vote = n.contains("-pv");
                nd.check_quorum = n.contains("-cq");
                if n.contains("-async") {
                    nd.mode = AppMode::Async;
                    nd.loose_async = n.contains("-loose");
                }
            }
            let n = nn;
            s.crashable = (1..=n as u8).collect();
            s.clients_at = (1..=n as u8).collect();
            let (mt, to, props, drops, dups, crashes, mi) = match l {
                0 => (2, 2, 2, 0, 0, 0, 3),
                1 => (3, 2, 1, 0, 0, 0, 3),
                2 => (3, 3, 1, 0, 0, 0, 3),
                3 => (3, 3, 1, 1, 0, 1, 4),
                4 => (4, 4, 1, 0, 0, 0, 4),
                5 => (4, 4, 2, 1, 0, 1, 5),
                6 => (5, 5, 2, 1, 1, 1, 5),
                _ => (6, 5, 3, 2, 1, 2, 5),
            };
            s.max_term = mt;
            s.max_index = mi;
            s.caps = caps(|c| {
                c.timeouts = to;
                c.props = props;
                c.drops = drops;
                c.dups = dups;
                c.crashes = crashes;
            });
            if name.contains("-div") {
                // node 1 led term 1 and node 3 led term 2, each with a local-only entry:
                // the state just before a Figure-8 hand-over
                s.prefix = vec![
                    Action::Timeout(1),
                    Action::Ready(1, Cut::None),
                    Action::Deliver(1, 2),
                    Action::Ready(2, Cut::None),
                    Action::Deliver(1, 3),
                    Action::Ready(3, Cut::None),
                    Action::Deliver(2, 1),
                    Action::Ready(1, Cut::None), // 1 leader of term 1, no-op at index 1 local
                    Action::DropAll,
                    Action::Timeout(3),
                    Action::Ready(3, Cut::None),
                    Action::Deliver(3, 2),
                    Action::Ready(2, Cut::None),
                    Action::Deliver(2, 3),
                    Action::Ready(3, Cut::None), // 3 leader of term 2, no-op at index 1 local
                    Action::DropAll,
                ];
                s.max_term = mt + 1;
            }
            if name.contains("-cbv") {
                // five voters, one entry per append. Node 1 (term 1) holds X at index 2 alone;
                // node 5 (term 2, elected by 2,3,4) holds its own (2, term 2) alone; node 1
                // (term 3) committed X and its no-op (3) with nodes 2 and 3; node 4 received X
                // only and learnt commit = 2 from a heartbeat. Node 4 may now campaign: its
                // vote request carries the commit info (2, term 1).
                s.prefix = vec![
                    Action::Timeout(1),
                    Action::Settle,
                    Action::Propose(1, 0),
                    Action::Settle0(1),
                    Action::DropAll,
                    Action::Timeout(5),
                    Action::Settle0(5),
                    Action::Deliver(5, 1),
                    Action::Settle0(1),
                    Action::Deliver(5, 2),
                    Action::Settle0(2),
                    Action::Deliver(5, 3),
                    Action::Settle0(3),
                    Action::Deliver(5, 4),
                    Action::Settle0(4),
                    Action::Deliver(2, 5),
                    Action::Settle0(5),
                    Action::Deliver(3, 5),
                    Action::Settle0(5),
                    Action::DropAll,
                    Action::Timeout(1),
                    Action::Settle0(1),
                    Action::Crash(4, 9),
                    Action::Crash(5, 9),
                    Action::Settle,
                    Action::DropAll,
                    Action::Restart(4),
                    Action::Restart(5),
                    Action::Tick(1),
                    Action::Settle0(1),
                    Action::Deliver(1, 4),
                    Action::Settle0(4),
                    Action::Deliver(4, 1),
                    Action::Settle0(1),
                    Action::Deliver(1, 4),
                    Action::Settle0(4),
                    Action::Deliver(4, 1),
                    Action::Settle0(1),
                    Action::Deliver(1, 4),
                    Action::Settle0(4),
                    Action::Deliver(4, 1),
                    Action::Settle0(1),
                    Action::Drop(1, 4),
                    Action::Tick(1),
                    Action::Settle0(1),
                    Action::Deliver(1, 4),
                    Action::Settle0(4),
                    Action::DropAll,
                ];
                s.timeoutable = vec![4];
                s.clients_at = vec![];
                s.crashable = vec![];
                s.max_term = 4;
                s.max_index = 5;
                s.caps = caps(|c| {
                    c.timeouts = 1;
                });
            }
            if name.contains("-hb") {
                // heartbeats too: a follower can learn a commit index below the leader's
                s.caps.beats = 1 + (l as u8) / 2;
                s.max_term = s.max_term.max(4);
            }
            if name.contains("-gc") {
                // group commit: node 1 in group 1, the others in group 2
                s.group_commit = true;
                for (k, nd) in s.nodes.iter_mut().enumerate() {
                    nd.group_id = if k == 0 { 1 } else { 2 };
                }
            }
            if name.contains("-stalehb") {
                // pre-vote on. Node 1 led term 1 (local-only (2, term 1)); one of its term-1
                // heartbeats to node 2 is still in flight. Node 2 led term 2 with local-only
                // (2, term 2), (3, term 2). Node 1 now leads term 3 with (3, term 3); node 2
                // follows in term 3 with its divergent tail, as long as the leader's log. The
                // stale heartbeat arrives now: the answer that makes a stale leader step down
                // must not pass for an acknowledgement of the new leader's log.
                for nd in s.nodes.iter_mut() {
                    nd.pre_vote = true;
                    nd.max_size_per_msg = raft::NO_LIMIT;
                }
                s.prefix = vec![
                    Action::Timeout(1),
                    Action::Settle,
                    Action::Propose(1, 0),
                    Action::Settle0(1),
                    Action::DropAll,
                    Action::Tick(1),
                    Action::Settle0(1),
                    Action::Drop(1, 3),
                    // node 2 wins term 2 with node 3
                    Action::Timeout(2),
                    Action::Settle0(2),
                    Action::Deliver(2, 3),
                    Action::Settle0(3),
                    Action::Deliver(3, 2),
                    Action::Settle0(2),
                    Action::Deliver(2, 3),
                    Action::Settle0(3),
                    Action::Deliver(3, 2),
                    Action::Settle0(2),
                    Action::Propose(2, 0),
                    Action::Settle0(2),
                    Action::Isolate(3),
                    // node 1 hears of term 2 (pre-vote, then the vote request)
                    Action::Deliver(2, 1),
                    Action::Settle0(1),
                    Action::Deliver(2, 1),
                    Action::Settle0(1),
                    Action::Drop(2, 1),
                ];
                s.timeoutable = vec![1];
                s.clients_at = vec![];
                s.crashable = vec![];
                s.max_term = 3;
                s.max_index = 4;
                s.caps = caps(|c| {
                    c.timeouts = 1;
                    c.reorders = 2;
                    c.beats = (l as u8).min(1);
                });
            }
            if name.contains("-back") {
                // (1, term 1) is committed everywhere; node 1 holds a local-only (2, term 1);
                // node 2 leads term 2 (elected by 3) with a local-only (2, term 2); node 1 knows
                // term 2. If node 1 wins term 3 it must overwrite node 2's later-term entry with
                // batches anchored at the common term-1 entry.
                for nd in s.nodes.iter_mut() {
                    nd.max_size_per_msg = raft::NO_LIMIT;
                }
                s.prefix = vec![
                    Action::Timeout(1),
                    Action::Settle,
                    Action::Propose(1, 0),
                    Action::Settle0(1),
                    Action::DropAll,
                    Action::Timeout(2),
                    Action::Settle0(2),
                    Action::Deliver(2, 3),
                    Action::Settle0(3),
                    Action::Deliver(2, 1),
                    Action::Settle0(1),
                    Action::Deliver(3, 2),
                    Action::Settle0(2),
                    Action::DropAll,
                ];
                if name.contains("-hiprio") {
                    // node 1 (a log as long as node 2's, ending in an older term) has the higher
                    // election priority; node 3 is gone for good and node 2 restarted: the only
                    // electable node (2) is refused by node 1 for its priority, node 1 by node 2
                    // for its log
                    s.prefix.push(Action::SetPrio(1, 5));
                    s.prefix.push(Action::Crash(3, 9));
                    s.prefix.push(Action::Crash(2, 9));
                    s.prefix.push(Action::Restart(2));
                    s.down_forever = vec![3];
                } else if name.contains("-prio") {
                    // node 1 holds two local-only term-1 entries (a longer log ending in an
                    // older term); the voters 2 and 3 have a higher priority than node 1
                    s.prefix.insert(5, Action::Propose(1, 0));
                    s.prefix.insert(6, Action::Settle0(1));
                    s.prefix.insert(7, Action::DropAll);
                    s.prefix.push(Action::SetPrio(2, 1));
                    s.prefix.push(Action::SetPrio(3, 1));
                }
                s.timeoutable = vec![1];
                s.clients_at = vec![1];
                s.crashable = if name.contains("-prio") { vec![] } else { vec![2] };
                let (to, props, beats, drops, dups, crashes, mi) = match l {
                    0 => (1, 0, 1, 0, 0, 0, 4),
                    1 => (1, 1, 1, 1, 0, 0, 5),
                    2 => (1, 1, 2, 1, 1, 1, 5),
                    _ => (2, 1, 2, 1, 1, 1, 5),
                };
                s.max_term = 3 + (l as u64) / 3;
                s.max_index = mi;
                s.caps = caps(|c| {
                    c.timeouts = to;
                    c.props = props;
                    c.beats = beats;
                    c.drops = drops;
                    c.dups = dups;
                    c.crashes = crashes;
                });
                if name.contains("-t4") {
                    // a fourth term: after node 1 (term 3) node 3 may take over and probe node 2,
                    // whose divergent entry has a higher term than the leader's entry at that index
                    s.timeoutable = vec![1, 3];
                    s.crashable = vec![];
                    s.max_term = 4;
                    s.max_index = 5;
                    s.caps = caps(|c| {
                        c.timeouts = 2;
                        c.beats = 1 + (l as u8).min(1);
                        c.drops = (l as u8).min(1);
                    });
                }
            }
        }
        // ------------------------------------------------------------ RELEAD
        // 5 voters; node 1 led term 1 and got entries 2..4 acknowledged by node 2 only; node 3
        // led term 2 (elected by 4, 5) and overwrote that tail everywhere; now node 1 may lead
        // again: acknowledgements of its first leadership must not count
        n if n.starts_with("relead5") => {
            s = Scenario::new(name, 5);
            for nd in s.nodes.iter_mut() {
                nd.max_size_per_msg = 0;
            }
            s.prefix = vec![
                Action::Timeout(1),
                Action::Settle,
                Action::Propose(1, 0),
                Action::Settle0(1),
                Action::Deliver(1, 2),
                Action::Settle0(2),
                Action::Deliver(2, 1),
                Action::Settle0(1),
                Action::DropAll,
                Action::Propose(1, 0),
                Action::Settle0(1),
                Action::Deliver(1, 2),
                Action::Settle0(2),
                Action::Deliver(2, 1),
                Action::Settle0(1),
                Action::DropAll,
                Action::Propose(1, 0),
                Action::Settle0(1),
                Action::Deliver(1, 2),
                Action::Settle0(2),
                Action::Deliver(2, 1),
                Action::Settle0(1),
                Action::DropAll,
                Action::Timeout(3),
                Action::Settle0(3),
                Action::Deliver(3, 4),
                Action::Settle0(4),
                Action::Deliver(3, 5),
                Action::Settle0(5),
                Action::Deliver(4, 3),
                Action::Settle0(3),
                Action::Deliver(5, 3),
                Action::Settle0(3),
                Action::Settle,
                Action::Crash(3, 9),
                Action::Crash(5, 9),
            ];
            s.down_forever = vec![3, 5];
            s.timeoutable = vec![1];
            s.clients_at = vec![1];
            s.crashable = vec![];
            let (to, props, drops, mi) = match l {
                0 => (1, 1, 0, 5),
                1 => (1, 1, 1, 5),
                _ => (2, 2, 2, 6),
            };
            s.max_term = 4;
            s.max_index = mi;
            s.caps = caps(|c| {
                c.timeouts = to;
                c.props = props;
                c.drops = drops;
            });
        }
        // ------------------------------------------------------------ STALE
        // voter {1} (+ learner 3) and a removed-but-unaware former voter 2
        n if n.starts_with("stale") => {
            s = Scenario::new(name, 3);
            s.voters = vec![1, 2];
            s.learners = vec![3];
            let pv = n.contains("-pvcq");
            for nd in s.nodes.iter_mut() {
                nd.pre_vote = pv;
                nd.check_quorum = pv;
            }
            if n.contains("-async") {
                s.nodes[0].mode = AppMode::Async;
            }
            if n.contains("-lazy") {
                s.inputs_per_ready = 3;
            }
            s.cc_menu = vec![CcSpec::V1(1, 2)];
            s.prefix = vec![
                Action::Timeout(1),
                Action::Settle,
                Action::ProposeCc(1, 0),
                Action::Settle0(1),
                Action::Deliver(1, 2),
                Action::Settle0(2),
                Action::Deliver(2, 1),
                Action::Settle0(1),
                Action::Isolate(2),
                Action::Settle,
            ];
            s.cc_menu = vec![CcSpec::V1(1, 2)];
            s.timeoutable = vec![1, 2];
            s.clients_at = vec![1];
            s.crashable = vec![1];
            s.tickable = vec![1];
            let (mt, to, ticks, props, cuts, crashes, lazy, dups) = match l {
                0 => (3, 2, 0, 0, 0, 1, 2, 0),
                1 => (4, 2, 0, 1, 0, 1, 2, 0),
                2 => (4, 3, 0, 1, 1, 0, 2, 0),
                3 => (5, 3, 2, 1, 1, 1, 3, 1),
                _ => (6, 4, 4, 2, 2, 1, 4, 1),
            };
            s.max_term = mt;
            s.max_index = 6;
            s.caps = caps(|c| {
                c.timeouts = to;
                c.ticks = ticks;
                c.props = props;
                c.cuts = cuts;
                c.crashes = crashes;
                c.lazy = if n.contains("-lazy") { lazy } else { 0 };
                c.dups = dups;
                c.beats = 1;
            });
        }
        // ------------------------------------------------------------ CRASH
        // every crash point of every Ready of every node; sync / async / lazy application
        n if n.starts_with("crash") => {
            let nn = if n.starts_with("crash2") { 2 } else { 3 };
            s = Scenario::new(name, nn);
            for nd in s.nodes.iter_mut() {
                if n.contains("-async") {
                    nd.mode = AppMode::Async;
                    nd.loose_async = n.contains("-loose");
                }
                if n.contains("-lag") {
                    nd.apply_lag = true;
                }
                if n.contains("-page") {
                    nd.max_committed_size_per_ready = 1;
                }
                if n.contains("-unp") {
                    nd.max_apply_unpersisted = 2;
                }
            }
            if n.contains("-lazy") {
                s.inputs_per_ready = 2;
            }
            s.crashable = (1..=nn as u8).collect();
            s.clients_at = (1..=nn as u8).collect();
            s.clone_checks = n.contains("-cc");
            let (mt, to, props, cuts, crashes, mi, lazy) = match l {
                1 => (2, 1, 1, 1, 1, 3, 1),
                2 => (2, 2, 1, 1, 1, 3, 1),
                3 => (3, 2, 2, 1, 1, 4, 2),
                4 => (3, 2, 2, 2, 2, 4, 2),
                _ => (3, 3, 2, 2, 2, 5, 2),
            };
            s.max_term = mt;
            s.max_index = mi;
            s.caps = caps(|c| {
                c.timeouts = to;
                c.props = props;
                c.cuts = cuts;
                c.crashes = crashes;
                c.lazy = if n.contains("-lazy") { lazy } else { 0 };
            });
        }
        // ------------------------------------------------------------ OVER
        // 3 voters, node 3 persists asynchronously; prefix: 1 leader, no-op committed. The
        // leader may crash in the middle of a Ready round (entries sent, not written), another
        // node takes over and overwrites the suffix node 3 has accepted but not yet persisted;
        // one persistence notification then covers both Readies; node 3 may campaign afterwards.
        n if n.starts_with("over") => {
            s = Scenario::new(name, 3);
            s.nodes[2].mode = AppMode::Async;
            s.nodes[2].loose_async = n.contains("-loose");
            if n.contains("-sz") {
                for nd in s.nodes.iter_mut() {
                    nd.max_size_per_msg = 0;
                }
            }
            // the leader's Ready round for entries 2 and 3 is cut after the send: only node 3 gets
            // them (Ready accepted asynchronously, not yet persisted); node 1 restarts without them
            s.prefix = vec![
                Action::Timeout(1),
                Action::Settle,
                Action::Propose(1, 0),
                Action::Propose(1, 0),
                Action::Ready(1, Cut::Writes(0)),
                Action::Restart(1),
                Action::Deliver(1, 3),
                Action::Deliver(1, 3),
                Action::DropAll,
                Action::ReadyAsync(3),
            ];
            s.clients_at = vec![2];
            s.crashable = vec![];
            s.timeoutable = vec![2, 3];
            if l == 0 {
                // level 0: node 2's election (with node 1's vote) is scripted as well
                s.prefix.extend(vec![
                    Action::Timeout(2),
                    Action::Settle0(2),
                    Action::Deliver(2, 1),
                    Action::Settle0(1),
                    Action::Deliver(1, 2),
                    Action::Settle0(2),
                ]);
                s.timeoutable = vec![3];
                if n.contains("-two") {
                    // the new leader's overwrite reaches as far as the unpersisted suffix did
                    s.prefix.extend(vec![Action::Propose(2, 0), Action::Settle0(2)]);
                }
            }
            let (props, to, cuts, crashes, drops, mi) = match l {
                0 => (0, 1, 0, 0, 0, 4),
                1 => (0, 2, 0, 0, 0, 4),
                2 => (1, 2, 0, 0, 0, 5),
                3 => (1, 2, 0, 0, 1, 5),
                _ => (2, 3, 0, 0, 1, 6),
            };
            s.max_term = 3 + (l as u64) / 3;
            s.max_index = mi;
            s.caps = caps(|c| {
                c.props = props;
                c.timeouts = to;
                c.cuts = cuts;
                c.crashes = crashes;
                c.drops = drops;
            });
        }
        // ------------------------------------------------------------ REPL / FLOW
        n if n.starts_with("repl") || n.starts_with("flow") => {
            s = Scenario::new(name, 3);
            let flow = n.starts_with("flow");
            for nd in s.nodes.iter_mut() {
                nd.max_inflight = if n.contains("-i1") { 1 } else { 2 };
                nd.max_size_per_msg = if n.contains("-sz") { 0 } else { raft::NO_LIMIT };
                nd.batch_append = n.contains("-batch");
                nd.skip_bcast_commit = n.contains("-skip");
                if n.contains("-async") {
                    nd.mode = AppMode::Async;
                }
                if flow {
                    nd.max_uncommitted_size = 3;
                    nd.max_size_per_msg = 0;
                }
                if n.contains("-szk") {
                    nd.max_size_per_msg = 40;
                }
                if n.contains("-async") && n.contains("-a1") {
                    // only the leader persists asynchronously
                    nd.mode = AppMode::Sync;
                }
                if n.contains("-unp") && !n.contains("-mix") {
                    // apply-before-persist on the leader
                    nd.max_apply_unpersisted = 2;
                }
                if n.contains("-page") {
                    nd.max_committed_size_per_ready = 1;
                }
            }
            if n.contains("-async") && n.contains("-a1") {
                s.nodes[0].mode = AppMode::Async;
            }
            if n.contains("-lazy") || n.contains("-batch") {
                s.inputs_per_ready = 2;
            }
            if n.contains("-lazy3") {
                // up to three inputs before a Ready round: e.g. two appends and a late duplicate
                s.inputs_per_ready = 3;
            }
            if n.contains("-gc") {
                s.group_commit = true;
                s.nodes[0].group_id = 1;
                s.nodes[1].group_id = 1;
                s.nodes[2].group_id = 2;
            }
            s.prefix = vec![Action::Timeout(1), Action::Settle];
            if n.contains("-div") {
                // follower 2 with a divergent uncommitted tail: 2 led an earlier term alone
                s.prefix = vec![
                    Action::Timeout(2),
                    Action::Settle0(2),
                    Action::Deliver(2, 3),
                    Action::Settle0(3),
                    Action::Deliver(3, 2),
                    Action::Settle0(2),
                    Action::DropAll,
                    Action::Propose(2, 0),
                    Action::Settle0(2),
                    Action::DropAll,
                    Action::Timeout(1),
                    Action::Settle0(1),
                    Action::Deliver(1, 3),
                    Action::Settle0(3),
                    Action::Deliver(3, 1),
                    Action::Settle0(1),
                    Action::DropAll,
                    Action::Tick(1),
                    Action::Settle0(1),
                ];
            }
            if n.contains("-grown") {
                // the application grew follower 3's window above max_inflight_msgs (2 -> 3)
                s.prefix.extend(vec![Action::SetCap(1, 3, 3), Action::Crash(2, 9)]);
                s.down_forever = vec![2];
            }
            if n.contains("-dropped") {
                // a proposal's append to follower 3 was lost; nothing else is proposed
                s.prefix.extend(vec![Action::Propose(1, 0), Action::Settle0(1), Action::Drop(1, 3)]);
            }
            if n.contains("-probe") {
                // follower 3 was reported unreachable: its progress starts in Probe state
                s.prefix.extend(vec![Action::Unreachable(1, 3), Action::Settle0(1)]);
            }
            if n.contains("-pre2") {
                // two proposals accepted by the leader in one (asynchronously persisted) Ready
                s.prefix.extend(vec![Action::Propose(1, 0), Action::Propose(1, 0), Action::ReadyAsync(1)]);
            }
            s.timeoutable = vec![];
            s.clients_at = vec![1];
            s.crashable = vec![2];
            if n.contains("-elect") {
                // leadership changes while uncommitted payload is outstanding
                s.timeoutable = vec![1, 2];
                s.clients_at = vec![1];
                if n.contains("-inherit") {
                    s.timeoutable = vec![2];
                    s.clients_at = vec![1, 2];
                }
            }
            s.prop_sizes = if flow { vec![0, 1, 3] } else { vec![1] };
            s.setcap_values = vec![0, 1, 3];
            if n.contains("-cap") {
                // runtime window resizing with a single payload size
                for nd in s.nodes.iter_mut() {
                    nd.max_uncommitted_size = raft::NO_LIMIT;
                }
                s.prop_sizes = vec![1];
                s.setcap_values = vec![1, 3];
            }
            if n.contains("-mix") {
                // size-limited appends over entries of very different sizes, follower 3 lagging
                for nd in s.nodes.iter_mut() {
                    nd.max_size_per_msg = 30;
                    nd.max_inflight = 2;
                }
                s.inputs_per_ready = 2;
                s.prop_sizes = vec![1, 40];
                if n.contains("-unp") {
                    // apply-before-persist on the leader with a finite page size
                    for nd in s.nodes.iter_mut() {
                        nd.max_apply_unpersisted = 2;
                        nd.max_committed_size_per_ready = 30;
                    }
                }
                s.prefix = vec![
                    Action::Timeout(1),
                    Action::Settle,
                    Action::Crash(3, 9),
                    Action::Propose(1, 0),
                    Action::Settle,
                    Action::Propose(1, 1),
                    Action::Settle,
                    Action::DropAll,
                    Action::Restart(3),
                ];
            }
            s.fault_types = vec![
                raft::eraftpb::MessageType::MsgAppend as u8,
                raft::eraftpb::MessageType::MsgAppendResponse as u8,
                raft::eraftpb::MessageType::MsgHeartbeatResponse as u8,
            ];
            let (props, beats, reorders, dups, drops, cuts, mi, lazy, setcaps, unreach) = match l {
                0 => (2, 1, 0, 0, 0, 0, 5, 1, 0, 0),
                1 => (2, 1, 1, 0, 0, 0, 5, 1, 0, 0),
                2 => (2, 1, 1, 1, 1, 0, 5, 1, 1, 0),
                3 => (3, 2, 1, 1, 1, 1, 6, 2, 1, 1),
                4 => (3, 2, 2, 2, 2, 1, 6, 2, 1, 1),
                _ => (4, 3, 2, 2, 3, 2, 7, 3, 2, 1),
            };
            s.max_index = mi + if n.contains("-div") { 1 } else { 0 };
            s.max_term = if n.contains("-elect") { 4 } else { 3 };
            if n.contains("-elect") {
                s.prop_sizes = vec![3];
            }
            if n.contains("-two") {
                // two inputs before a Ready round: a committed batch can span entries inherited
                // at the election and the new leader's own proposals
                s.inputs_per_ready = 2;
            }
            if n.contains("-inh2") {
                // scripted: node 1's payload entry reached node 2 only; node 2 (elected by node
                // 3) leads term 2 with that inherited uncommitted entry; it proposes itself with
                // two inputs per Ready round, so one committed batch can hold the inherited
                // entry, the no-op and its own payload
                s.inputs_per_ready = 2;
                s.prefix = vec![
                    Action::Timeout(1),
                    Action::Settle,
                    Action::Propose(1, 0),
                    Action::Settle0(1),
                    Action::Deliver(1, 2),
                    Action::Settle0(2),
                    Action::DropAll,
                    Action::Timeout(2),
                    Action::Settle0(2),
                    Action::Deliver(2, 3),
                    Action::Settle0(3),
                    Action::Deliver(3, 2),
                    Action::Settle0(2),
                    Action::Isolate(1),
                ];
                s.timeoutable = vec![];
                s.clients_at = vec![2];
                s.crashable = vec![];
            }
            let cap_variant = n.contains("-cap");
            let mix = n.contains("-mix");
            s.caps = caps(|c| {
                c.props = props;
                c.beats = beats;
                c.reorders = reorders;
                c.dups = dups;
                c.drops = drops;
                c.cuts = cuts;
                c.lazy = if s.inputs_per_ready > 1 { lazy } else { 0 };
                if flow {
                    c.setcaps = setcaps;
                    c.unreach = unreach;
                }
                if cap_variant {
                    c.props = 3;
                    c.setcaps = 1 + (l as u8) / 2;
                    c.beats = (l as u8).min(2);
                    c.reorders = 0;
                }
                if n.contains("-fetch") {
                    c.fetches = 1;
                }
                if n.contains("-p3") {
                    // three proposals and nothing else: admission after a partial commit
                    c.props = 3;
                    c.beats = 0;
                    c.reorders = 0;
                }
                if n.contains("-elect") {
                    c.timeouts = 2;
                    c.props = if live { 1 } else { 2 } + (l as u8) / 2;
                    c.beats = 0;
                    c.reorders = 0;
                    c.dups = 0;
                    c.drops = (l as u8).min(1);
                    if n.contains("-inherit") {
                        // node 2 takes over while a payload entry of node 1 is uncommitted,
                        // then proposes itself
                        c.timeouts = 1;
                        c.props = 3;
                        c.drops = 0;
                    }
                    if n.contains("-inh2") {
                        c.timeouts = 0;
                        c.props = 2 + (l as u8).min(1);
                        c.drops = 0;
                        c.lazy = 2;
                    }
                }
                if n.contains("-lazy3") {
                    c.props = 2;
                    c.beats = 0;
                    c.dups = 1;
                    c.reorders = 0;
                    c.drops = 0;
                    c.lazy = 2;
                }
                if n.contains("-grown") {
                    c.props = 4;
                    c.beats = 1;
                    c.reorders = 0;
                    c.dups = 0;
                    c.drops = 0;
                    c.lazy = 0;
                }
                if n.contains("-dropped") {
                    c.props = 0;
                    c.beats = 2;
                    c.drops = 0;
                    c.reorders = 0;
                    c.dups = 0;
                }
                if n.contains("-probe") {
                    // one proposal to commit (its commit broadcast is an empty append), one
                    // stepped before that Ready is taken, one afterwards
                    c.props = 3;
                    c.beats = 0;
                    c.reorders = 0;
                }
                if n.contains("-pre2") {
                    c.props = 0;
                    c.beats = 0;
                    c.lazy = 0;
                }
                if n.contains("-compact") {
                    // any node may compact its log up to its applied index: late, duplicated
                    // and reordered appends meet compacted prefixes
                    c.compacts = 1 + (l as u8) / 3;
                    c.dups = 1 + (l as u8) / 2;
                    c.reorders = (l as u8).min(1);
                    c.drops = (l as u8) / 2;
                    if l == 0 {
                        c.props = 1;
                        c.beats = 0;
                    }
                }
                if mix {
                    c.props = 1 + (l as u8) / 2;
                    c.beats = 1 + (l as u8) / 2;
                    c.lazy = 2 + l as u8;
                    c.reorders = 0;
                }
            });
        }
        // ------------------------------------------------------------ LAG2
        // 5 nodes, voters {1,2,3}. The leader added voter 4 (index 2) and then voter 5 (index
        // 3), each committed and applied by 1, 2, 4, 5. Node 3 holds both entries, but crashed
        // between writing entry 3 and writing the hard state that carried commit = 2 (the
        // documented write order): it restarts with commit = 1 and its configuration two
        // changes old. Nodes 3 and 4 may time out.
        n if n.starts_with("lag2") => {
            s = Scenario::new(name, 5);
            s.voters = vec![1, 2, 3];
            s.cc_menu = vec![CcSpec::V1(0, 4), CcSpec::V1(0, 5)];
            s.prefix = vec![
                Action::Timeout(1),
                Action::Settle,
                Action::ProposeCc(1, 0),
                Action::Settle0(1),
                Action::Deliver(1, 2),
                Action::Settle0(2),
                Action::Deliver(1, 3),
                Action::Settle0(3),
                Action::Deliver(2, 1),
                Action::Settle0(1),
                Action::Deliver(3, 1),
                Action::Settle0(1),
                Action::Isolate(3),
                Action::Settle,
                Action::ProposeCc(1, 1),
                Action::Settle0(1),
                Action::Deliver(1, 3),
                Action::Ready(3, Cut::Writes(1)),
                Action::Settle,
                Action::Isolate(3),
                Action::Restart(3),
                Action::DropAll,
            ];
            if n.contains("-catchup") {
                // node 3 was down (nothing lost) during both changes and is caught up by one append
                // carrying both entries (and the leader's commit index); nothing else reaches it
                s.prefix = vec![
                    Action::Timeout(1),
                    Action::Settle,
                    Action::Crash(3, 9),
                    Action::ProposeCc(1, 0),
                    Action::Settle,
                    Action::ProposeCc(1, 1),
                    Action::Settle,
                    Action::DropAll,
                    Action::Restart(3),
                    Action::Tick(1),
                    Action::Settle0(1),
                    Action::Deliver(1, 3),
                    Action::Settle0(3),
                    Action::Deliver(3, 1),
                    Action::Settle0(1),
                    Action::Deliver(1, 3),
                    Action::Settle0(3),
                    Action::Deliver(3, 1),
                    Action::Settle0(1),
                    Action::Deliver(1, 3),
                    Action::Settle0(3),
                    Action::DropAll,
                ];
            }
            s.timeoutable = vec![3, 4];
            if l == 0 {
                // level 0 also scripts node 4's election (term 2, votes of 5 and 2; node 1 has
                // not heard of it); only node 3 may time out
                s.prefix.extend(vec![
                    Action::Timeout(4),
                    Action::Settle0(4),
                    Action::Deliver(4, 5),
                    Action::Settle0(5),
                    Action::Deliver(5, 4),
                    Action::Settle0(4),
                    Action::Deliver(4, 2),
                    Action::Settle0(2),
                    Action::Deliver(2, 4),
                    Action::Settle0(4),
                    Action::DropAll,
                ]);
                s.timeoutable = vec![3];
            }
            s.clients_at = vec![];
            s.crashable = vec![];
            s.max_term = 2 + (l as u64).saturating_sub(1);
            s.max_index = 6;
            s.caps = caps(|c| {
                c.timeouts = if l == 0 { 1 } else { 2 };
                c.props = 0;
            });
        }
        // ------------------------------------------------------------ MEMBER
        n if n.starts_with("member") => {
            // the spare node 4 is pointless when the menu never adds it
            s = Scenario::new(name, if n.contains("-rm1") { 3 } else { 4 });
            s.voters = vec![1, 2, 3];
            for nd in s.nodes.iter_mut() {
                nd.apply_lag = !n.contains("-eager") && !(n.contains("-rm1") && l == 0);
                if n.contains("-async") {
                    nd.mode = AppMode::Async;
                }
                nd.pre_vote = n.contains("-pvcq");
                nd.check_quorum = n.contains("-pvcq");
            }
            s.cc_menu = vec![
                CcSpec::V1(0, 4),                          // add voter 4
                CcSpec::V1(1, 3),                          // remove 3
                CcSpec::V1(1, 1),                          // remove 1 (the leader)
                CcSpec::V1(2, 4),                          // add learner 4
                CcSpec::V2(0, vec![(0, 4), (1, 3)]),       // joint, auto leave: add 4, remove 3
                CcSpec::V2(2, vec![(0, 4), (1, 3)]),       // joint, explicit
                CcSpec::V2(0, vec![]),                     // leave joint
                CcSpec::V2(1, vec![(2, 3)]),               // joint implicit: demote 3
                CcSpec::V1(2, 3),                          // demote 3 (simple)
            ];
            if n.contains("-joint") {
                // start inside an explicit joint configuration {1,2,4}&&{1,2,3}
                s.prefix = vec![Action::Timeout(1), Action::Settle, Action::ProposeCc(1, 0), Action::Settle];
                s.cc_menu = vec![
                    CcSpec::V2(2, vec![(0, 4), (1, 3)]),   // (prefix) enter joint, explicit
                    CcSpec::V2(0, vec![]),                 // leave joint
                    CcSpec::V1(1, 2),                      // illegal while joint
                    CcSpec::V2(0, vec![(1, 2)]),           // illegal while joint
                ];
                if n.contains("-xe") {
                    // an empty change list with an explicit transition: apply_conf_change reads
                    // it as "enter joint" (only transition Auto + no changes means "leave")
                    s.cc_menu = vec![s.cc_menu[0].clone(), CcSpec::V2(2, vec![]), CcSpec::V2(1, vec![])];
                }
            } else if n.contains("-rm1") {
                // the leader removes itself (raft-rs lets it keep leading until it steps down)
                s.prefix = vec![Action::Timeout(1), Action::Settle];
                s.cc_menu = vec![CcSpec::V1(1, 1), CcSpec::V1(2, 1)];
                s.clients_at = vec![1];
                s.timeoutable = vec![1, 2];
            } else {
                s.prefix = vec![Action::Timeout(1), Action::Settle];
            }
            if n.contains("-2v") {
                // two voters: after its own removal the leader faces a single remaining voter
                s = Scenario { nodes: s.nodes[..2].to_vec(), voters: vec![1, 2], ..s };
                s.clients_at = vec![1, 2];
                s.timeoutable = vec![2];
            }
            if n.contains("-fasync") {
                // follower 2 persists asynchronously; the leader removes node 3
                s = Scenario::new(name, 3);
                s.voters = vec![1, 2, 3];
                s.nodes[1].mode = AppMode::Async;
                s.cc_menu = vec![CcSpec::V1(1, 3)];
            }
            if n.contains("-mix") {
                // batched proposals: [normal, conf change] in one MsgPropose, leader applies lazily
                s.mix_proposals = true;
                s.cc_menu = if l == 0 { vec![CcSpec::V1(0, 4)] } else { vec![CcSpec::V1(0, 4), CcSpec::V1(1, 3)] };
                for nd in s.nodes.iter_mut().skip(1) {
                    nd.apply_lag = false;
                }
                s.timeoutable = vec![];
            }
            if n.contains("-fasync") {
                s.prefix = vec![Action::Timeout(1), Action::Settle];
                s.clients_at = vec![1];
                s.timeoutable = vec![2];
            }
            if !n.contains("-rm1") && !n.contains("-mix") && !n.contains("-fasync") {
                s.clients_at = vec![1, 2];
                s.timeoutable = vec![1, 2, 3, 4];
            }
            s.crashable = vec![1, 2];
            s.transfer_targets = vec![2, 4];
            if l == 0 {
                s.clients_at = vec![1];
            }
            if n.contains("-mix") {
                s.clients_at = vec![1];
            }
            if n.contains("-mix") && n.contains("-page") {
                // one committed entry per Ready everywhere, every application lags: a follower
                // that times out scans an unapplied backlog [normal, conf change] page by page
                for nd in s.nodes.iter_mut() {
                    nd.max_committed_size_per_ready = 1;
                    nd.apply_lag = true;
                }
                s = Scenario { nodes: s.nodes[..3].to_vec(), ..s };
                s.cc_menu = vec![CcSpec::V1(1, 3)];
                s.timeoutable = vec![2];
                // [normal, remove 3] is committed everywhere and applied nowhere
                s.prefix = vec![
                    Action::Timeout(1),
                    Action::Settle,
                    Action::HoldApply(true),
                    Action::ProposeMix(1, 0),
                    Action::Settle,
                    Action::HoldApply(false),
                ];
            }
            if n.contains("-a1") {
                // only the leader persists asynchronously; one auto-leave joint change: the
                // leave-joint entry is appended by the leader itself when it applies the enter
                for (k, nd) in s.nodes.iter_mut().enumerate() {
                    nd.mode = if k == 0 { AppMode::Async } else { AppMode::Sync };
                    nd.apply_lag = false;
                }
                s.cc_menu = vec![CcSpec::V2(0, vec![(0, 4), (1, 3)])];
                s.clients_at = vec![1];
                s.timeoutable = vec![];
                s.crashable = vec![];
            }
            if n.contains("-promo") {
                // voters {1}, learner {2}, check_quorum: leader 1 promoted node 2 (committed and
                // applied on its own); node 2 holds the entry but never learnt that it is
                // committed, so in its own view it is still a learner; the link is cut and the
                // leader ticks on (it will fail its quorum check and step down)
                s = Scenario { nodes: s.nodes[..2].to_vec(), voters: vec![1], learners: vec![2], ..s };
                for nd in s.nodes.iter_mut() {
                    nd.check_quorum = true;
                    nd.apply_lag = false;
                }
                s.cc_menu = vec![CcSpec::V1(0, 2)];
                s.prefix = vec![
                    Action::Timeout(1),
                    Action::Settle,
                    Action::ProposeCc(1, 0),
                    Action::Settle0(1),
                    Action::Deliver(1, 2),
                    Action::Settle0(2),
                    Action::DropAll,
                ];
                s.clients_at = vec![];
                s.timeoutable = vec![];
                s.crashable = vec![];
            }
            if n.contains("-fresh") {
                // voters {1,2}; node 3 does not exist yet. The leader adds it as a voter and
                // everybody compacts; node 3 is then created with an empty store (no
                // configuration, no log): it is initialised by a snapshot, but may be asked for
                // its vote before that
                s = Scenario { nodes: s.nodes[..3].to_vec(), voters: vec![1, 2], ..s };
                s.nodes[2].boot = false;
                s.nodes[2].empty_conf = true;
                for nd in s.nodes.iter_mut() {
                    nd.apply_lag = false;
                }
                s.cc_menu = vec![CcSpec::V1(0, 3)];
                s.prefix = vec![
                    Action::Timeout(1),
                    Action::Settle,
                    Action::ProposeCc(1, 0),
                    Action::Settle,
                    Action::Compact(1),
                    Action::Compact(2),
                    Action::DropAll,
                    Action::Restart(3),
                ];
                s.clients_at = vec![];
                s.timeoutable = vec![2];
                s.crashable = vec![3];
            }
            if n.contains("-jd") {
                // the group sits in an explicit joint configuration that demotes voter 3:
                // voters (1 2)&&(1 2 3), learners_next (3); nodes crash and restart there
                s.cc_menu = vec![CcSpec::V2(2, vec![(2, 3)]), CcSpec::V2(0, vec![])];
                s.prefix = vec![Action::Timeout(1), Action::Settle, Action::ProposeCc(1, 0), Action::Settle];
                s.clients_at = vec![1];
                s.timeoutable = vec![2];
            }
            if n.contains("-al") {
                // only the leader's application lags
                for (k, nd) in s.nodes.iter_mut().enumerate() {
                    nd.apply_lag = k == 0;
                }
            }
            if n.contains("-auto") {
                // one auto-leave joint change with ordinary proposals pipelined behind it: when
                // the (lagging) leader applies the enter-joint entry its log already holds later
                // entries, and the leave-joint entry it appends by itself goes behind them
                s.cc_menu = vec![CcSpec::V2(0, vec![(0, 4), (1, 3)])];
                s.clients_at = vec![1];
                s.timeoutable = vec![];
                s.crashable = vec![];
            }
            if n.contains("-joint") && l == 0 {
                // level 0: two proposals out of {enter (again), leave}, nothing else
                s.cc_menu.truncate(2);
            }
            let c4 = n.contains("-c4");
            if c4 {
                // the spare node 4 is made a voter; it may be asked for its vote before its own
                // application has applied the change (it is not yet "promotable"), and crash
                s.cc_menu = vec![CcSpec::V1(0, 4)];
                s.prefix = vec![
                    Action::Timeout(1),
                    Action::Settle,
                    Action::Crash(4, 9),
                    Action::ProposeCc(1, 0),
                    Action::Settle,
                    Action::DropAll,
                    Action::Restart(4),
                ];
                s.crashable = vec![4];
                s.timeoutable = vec![2];
                s.clients_at = vec![];
            }
            let two = n.contains("-2v");
            if two {
                s.transfer_targets = vec![2];
            }
            let (ccs, props, to, crashes, mt, mi, xf, lazy) = match l {
                0 | 1 if n.contains("-auto") => (1, 1 + l as u8, 0, 0, 2, 7, 0, 1),
                0 | 1 if n.contains("-a1") => (1, l as u8, 0, 0, 2, 6, 0, 1),
                0 if n.contains("-fresh") => (0, 0, 1, 1, 3, 6, 0, 1),
                1 if n.contains("-fresh") => (0, 1, 1, 1, 3, 7, 0, 1),
                0 | 1 if n.contains("-promo") => (0, 0, 0, 0, 3, 6, 0, 1),
                0 if n.contains("-jd") => (0, 0, 0, 1, 2, 6, 0, 1),
                1 if n.contains("-jd") => (1, 0, 1, 1, 3, 6, 0, 1),
                0 if n.contains("-joint") => (2, 0, 0, 0, 2, 6, 0, 1),
                0 if c4 => (0, 0, 1, 1, 3, 6, 0, 1),
                1 if c4 => (0, 0, 2, 1, 3, 6, 0, 1),
                0 if two => (1, 1, 1, 0, 3, 6, 0, 1),
                1 if two => (1, 1, 1, 0, 3, 6, 1, 1),
                2 if two => (1, 2, 2, 1, 3, 7, 1, 1),
                0 | 1 if n.contains("-rm1") => (1, l as u8, 2, 0, 3, 6, 0, 1),
                0 | 1 if n.contains("-mix") && n.contains("-page") => (0, 0, 1, 0, 3, 7, 0, 1),
                0 | 1 if n.contains("-mix") => (2, 1, 0, 0, 2, 7, 0, 1),
                0 | 1 if n.contains("-fasync") => (1, l as u8, 1, 0, 3, 6, 0, 1),
                0 => (1, 0, 0, 0, 2, 5, 0, 1),
                1 => (1, 0, 0, 0, 2, 5, 0, 1),
                2 => (1, 1, 1, 0, 3, 6, 0, 1),
                3 => (2, 0, 1, 0, 3, 6, 0, 1),
                4 => (2, 1, 1, 1, 3, 7, 0, 2),
                _ => (3, 1, 2, 1, 4, 8, 1, 2),
            };
            s.max_term = mt;
            s.max_index = mi + if n.contains("-joint") { 1 } else { 0 };
            if n.contains("-lazy") {
                s.inputs_per_ready = 2;
            }
            s.caps = caps(|c| {
                c.ccs = ccs;
                c.props = props;
                c.timeouts = to;
                c.crashes = crashes;
                c.transfers = xf;
                c.lazy = if n.contains("-lazy") { lazy } else { 0 };
                if two {
                    c.reads = 1;
                    c.beats = l as u8;
                }
                if n.contains("-fresh") {
                    c.beats = l as u8;
                }
                if n.contains("-promo") {
                    c.beats = 8;
                }
            });
            if two && l == 0 {
                s.clients_at = vec![1, 2];
            }
        }
        // ------------------------------------------------------------ SNAP
        n if n.starts_with("snap") => {
            s = Scenario::new(name, 3);
            s.prefix = vec![
                Action::Timeout(1),
                Action::Settle,
                Action::Crash(3, 9),
                Action::Propose(1, 0),
                Action::Settle,
                Action::Propose(1, 0),
                Action::Settle,
                Action::Compact(1),
                Action::DropAll,
                Action::Restart(3),
            ];
            if n.contains("-fig8") {
                // Figure-8 history plus a snapshot below the leader's commit index: node 3 holds
                // its own uncommitted (2, term 2); node 1 (term 3) committed (2, term 1), (3, term 3)
                // with node 2, applied only index 2 and compacted there
                s.nodes[0].apply_lag = true;
                s.prefix = vec![
                    Action::Timeout(1),
                    Action::Settle,
                    Action::Propose(1, 0),
                    Action::Settle0(1),
                    Action::DropAll,
                    Action::Timeout(3),
                    Action::Settle0(3),
                    Action::Deliver(3, 2),
                    Action::Settle0(2),
                    Action::Deliver(3, 1),
                    Action::Settle0(1),
                    Action::Deliver(2, 3),
                    Action::Settle0(3),
                    Action::DropAll,
                    Action::Timeout(1),
                    Action::Settle0(1),
                    Action::Deliver(1, 2),
                    Action::Settle0(2),
                    Action::Deliver(2, 1),
                    Action::Settle0(1),
                    Action::Isolate(3),
                    Action::Deliver(1, 2),
                    Action::Settle0(2),
                    Action::Deliver(2, 1),
                    Action::Settle0(1),
                    Action::Isolate(3),
                    Action::Deliver(1, 2),
                    Action::Settle0(2),
                    Action::Deliver(2, 1),
                    Action::Ready(1, Cut::None),
                    Action::Isolate(3),
                    Action::ApplyNext(1),
                    Action::Compact(1),
                    Action::Isolate(3),
                ];
            }
            if n.contains("-joint") {
                s = Scenario::new(name, 4);
                s.voters = vec![1, 2, 3];
                s.cc_menu = vec![CcSpec::V2(2, vec![(0, 4), (1, 2)])];
                s.prefix = vec![
                    Action::Timeout(1),
                    Action::Settle,
                    Action::Crash(3, 9),
                    Action::ProposeCc(1, 0),
                    Action::Settle,
                    Action::Propose(1, 0),
                    Action::Settle,
                    Action::Compact(1),
                    Action::DropAll,
                    Action::Restart(3),
                ];
            }
            if n.contains("-shrink") {
                // while node 3 is down the group replaces voter 2 by voter 4 (explicit joint
                // change, then leave): the snapshot's configuration {1,3,4} no longer lists a
                // peer node 3 still tracks
                s = Scenario::new(name, 4);
                s.voters = vec![1, 2, 3];
                s.cc_menu = vec![CcSpec::V2(2, vec![(0, 4), (1, 2)]), CcSpec::V2(0, vec![])];
                s.prefix = vec![
                    Action::Timeout(1),
                    Action::Settle,
                    Action::Crash(3, 9),
                    Action::ProposeCc(1, 0),
                    Action::Settle,
                    Action::ProposeCc(1, 1),
                    Action::Settle,
                    Action::Propose(1, 0),
                    Action::Settle,
                    Action::Compact(1),
                    Action::DropAll,
                    Action::Restart(3),
                ];
            }
            if n.contains("-cq2") {
                // check_quorum, and the up-to-date follower is gone for good: the follower that
                // needs the snapshot is also the one the leader needs for its quorum
                for nd in s.nodes.iter_mut() {
                    nd.check_quorum = true;
                }
                s.prefix.push(Action::Crash(2, 9));
                s.down_forever = vec![2];
            }
            if n.contains("-cclag") {
                // follower 3 applies lazily and takes two inputs per Ready round. "Add voter 4"
                // (index 2) is committed everywhere and handed to node 3's application, which has
                // not applied it yet. Node 3 then misses "remove 4" (3) and a normal entry (4);
                // the leader compacted: node 3 is caught up by a snapshot (configuration
                // {1,2,3} again) while the old membership entry is still waiting to be applied
                s = Scenario::new(name, 4);
                s.voters = vec![1, 2, 3];
                s.nodes[2].apply_lag = true;
                s.inputs_per_ready = 2;
                s.cc_menu = vec![CcSpec::V1(0, 4), CcSpec::V1(1, 4)];
                s.prefix = vec![
                    Action::Timeout(1),
                    Action::Settle,
                    Action::HoldApply(true),
                    Action::ProposeCc(1, 0),
                    Action::Settle,
                    Action::Crash(3, 9),
                    Action::ProposeCc(1, 1),
                    Action::Settle,
                    Action::Propose(1, 0),
                    Action::Settle,
                    Action::Compact(1),
                    Action::DropAll,
                    Action::Restart(3),
                    Action::HoldApply(false),
                ];
            }
            if n.contains("-selfelect") {
                // voters {1,2}; leader 1 demoted itself to learner (it keeps leading), so node 2
                // is the only voter. Node 2 persists asynchronously; it asked for a snapshot,
                // received it, handed the Ready over with advance_append_async and is not yet
                // told that it is persisted. It may time out now.
                s = Scenario::new(name, 2);
                s.voters = vec![1, 2];
                s.nodes[1].mode = AppMode::Async;
                s.cc_menu = vec![CcSpec::V1(2, 1)];
                s.prefix = vec![
                    Action::Timeout(1),
                    Action::Settle,
                    Action::ProposeCc(1, 0),
                    Action::Settle,
                    Action::RequestSnap(2),
                    Action::Settle0(2),
                    Action::Deliver(2, 1),
                    Action::Settle0(1),
                    Action::Deliver(1, 2),
                    Action::ReadyAsync(2),
                ];
            }
            if n.contains("-stall") {
                // node 2 is gone for good; follower 3 persisted the leader's newest entry, its
                // acknowledgement was lost, and its application asks for a snapshot: the request
                // index is an entry that cannot commit without node 3
                s.prefix = vec![
                    Action::Timeout(1),
                    Action::Settle,
                    Action::Crash(2, 9),
                    Action::Propose(1, 0),
                    Action::Settle0(1),
                    Action::Deliver(1, 3),
                    Action::Settle0(3),
                    Action::Drop(3, 1),
                    Action::RequestSnap(3),
                    Action::Settle0(3),
                ];
                s.down_forever = vec![2];
            }
            if n.contains("-prec") {
                // pre-vote on. Follower 2 asked for a snapshot while the leader's append of entry
                // 3 to it was still in flight; the leader's answer (a snapshot at index 2) is in
                // flight behind that append. Node 2 then timed out and pre-campaigns (its
                // pre-vote requests were lost): a pre-candidate with a snapshot request pending
                for nd in s.nodes.iter_mut() {
                    nd.pre_vote = true;
                }
                s.prefix = vec![
                    Action::Timeout(1),
                    Action::Settle,
                    Action::Propose(1, 0),
                    Action::Settle,
                    Action::Propose(1, 0),
                    Action::Settle0(1),
                    Action::RequestSnap(2),
                    Action::Settle0(2),
                    Action::Deliver(2, 1),
                    Action::Settle0(1),
                    Action::Timeout(2),
                    Action::Settle0(2),
                    Action::Drop(2, 1),
                    Action::Drop(2, 3),
                ];
            }
            if n.contains("-jauto") {
                // an implicit (auto-leave) joint change adds learner 4; node 3 applied the
                // enter-joint entry and went down before the leave-joint entry was committed;
                // the others left the joint configuration, went on and compacted: node 3, still
                // in the auto-leave joint configuration, is caught up by a snapshot
                s = Scenario::new(name, 4);
                s.voters = vec![1, 2, 3];
                s.cc_menu = vec![CcSpec::V2(1, vec![(2, 4)])];
                s.prefix = vec![
                    Action::Timeout(1),
                    Action::Settle,
                    Action::ProposeCc(1, 0),
                    Action::Settle0(1),
                    Action::Deliver(1, 2),
                    Action::Settle0(2),
                    Action::Deliver(1, 3),
                    Action::Settle0(3),
                    Action::Deliver(2, 1),
                    Action::Settle0(1),
                    Action::Deliver(1, 3),
                    Action::Settle0(3),
                    Action::Crash(3, 9),
                    Action::Settle,
                    Action::Propose(1, 0),
                    Action::Settle,
                    Action::Propose(1, 0),
                    Action::Settle,
                    Action::Compact(1),
                    Action::DropAll,
                    Action::Restart(3),
                ];
            }
            if n.contains("-jback") {
                // while node 3 is down the group adds voter 4 and then enters an explicit joint
                // configuration removing it again: (1 2 3)&&(1 2 3 4). The snapshot's incoming
                // voters equal node 3's old configuration; only the joint part differs.
                s = Scenario::new(name, 4);
                s.voters = vec![1, 2, 3];
                s.cc_menu = vec![CcSpec::V1(0, 4), CcSpec::V2(2, vec![(1, 4)]), CcSpec::V2(0, vec![])];
                s.prefix = vec![
                    Action::Timeout(1),
                    Action::Settle,
                    Action::Crash(3, 9),
                    Action::ProposeCc(1, 0),
                    Action::Settle,
                    Action::ProposeCc(1, 1),
                    Action::Settle,
                    Action::Compact(1),
                    Action::DropAll,
                    Action::Restart(3),
                ];
            }
            s.clients_at = vec![1];
            s.crashable = vec![3];
            s.timeoutable = vec![3];
            if n.contains("-prec") || n.contains("-stall") {
                s.crashable = vec![];
                s.timeoutable = vec![];
            }
            if n.contains("-selfelect") {
                s.crashable = vec![];
                s.timeoutable = vec![2];
                s.clients_at = vec![];
            }
            if n.contains("-cclag") {
                s.crashable = vec![];
                s.timeoutable = vec![];
                s.clients_at = vec![];
            }
            if n.contains("-lazy") {
                s.inputs_per_ready = 2;
            }
            if n.contains("-lag") {
                for nd in s.nodes.iter_mut() {
                    nd.apply_lag = true;
                }
            }
            if n.contains("-unp") {
                // apply-before-persist with a generous limit
                for nd in s.nodes.iter_mut() {
                    nd.max_apply_unpersisted = 5;
                }
            }
            let req = n.contains("-req");
            if n.contains("-async") {
                // the lagging follower persists asynchronously
                let k = s.nodes.len().min(3) - 1;
                s.nodes[k].mode = AppMode::Async;
                s.nodes[k].loose_async = n.contains("-loose");
            }
            s.fault_types = vec![raft::eraftpb::MessageType::MsgSnapshot as u8, raft::eraftpb::MessageType::MsgAppendResponse as u8];
            let (compacts, props, dups, drops, reorders, snapfail, reqsnaps, cuts, to, beats, mi) = match l {
                0 => (0, 0, 0, 0, 0, 1, 0, 0, 0, 1, 6),
                1 => (0, 1, 0, 0, 0, 1, 0, 0, 0, 2, 6),
                2 => (1, 1, 1, 1, 0, 1, 0, 0, 0, 2, 6),
                3 => (1, 1, 1, 1, 1, 1, 1, 1, 0, 2, 6),
                4 => (1, 2, 1, 1, 1, 1, 1, 1, 1, 3, 7),
                _ => (2, 2, 2, 2, 1, 2, 1, 1, 1, 3, 8),
            };
            s.max_index = mi;
            s.max_term = 3;
            s.caps = caps(|c| {
                c.compacts = compacts;
                c.props = props;
                c.dups = dups;
                c.drops = drops;
                c.reorders = reorders;
                c.snapfail = snapfail;
                c.reqsnaps = reqsnaps;
                c.cuts = cuts;
                c.timeouts = to;
                c.beats = beats;
                if n.contains("-lazy") || n.contains("-lag") {
                    c.timeouts = to.max(1);
                    c.lazy = 2;
                }
                if n.contains("-unp") {
                    // keep the space for the snapshot-then-append race small
                    c.timeouts = 0;
                    c.snapfail = 0;
                }
                if n.contains("-busy") {
                    // the leader's application is still building the snapshot once
                    c.snapbusy = 1;
                }
                if n.contains("-cclag") {
                    c.lazy = 3;
                    c.snapfail = 0;
                }
                if n.contains("-selfelect") {
                    c.timeouts = 1;
                    c.snapfail = 0;
                    c.beats = 0;
                }
                if n.contains("-to1") {
                    // the lagging follower may time out once (with -gpv: pre-campaign)
                    c.timeouts = 1;
                }
                if n.contains("-unr") {
                    // the application reports the snapshot receiver unreachable once
                    c.unreach = 1;
                    c.snapfail = 0;
                }
                if req {
                    // the follower asks for a snapshot; stale and duplicated MsgSnapshot around it
                    c.reqsnaps = 1;
                    c.dups = 1 + (l as u8) / 2;
                    c.props = 1;
                    c.reorders = (l as u8).min(1);
                    c.snapfail = 0;
                    c.compacts = (l as u8).min(1);
                }
            });
        }
        // ------------------------------------------------------------ READ
        n if n.starts_with("read") => {
            s = Scenario::new(name, 3);
            s.prefix = vec![Action::Timeout(1), Action::Settle];
            if n.contains("-lease") {
                for nd in s.nodes.iter_mut() {
                    nd.lease_read = true;
                    nd.check_quorum = true;
                }
            }
            if n.contains("-nofwd") {
                for nd in s.nodes.iter_mut() {
                    nd.disable_forwarding = true;
                }
            }
            s.clients_at = vec![1, 2];
            s.timeoutable = vec![2, 3];
            s.crashable = vec![1];
            s.cc_menu = vec![CcSpec::V1(1, 3)];
            s.fault_types = vec![
                raft::eraftpb::MessageType::MsgHeartbeat as u8,
                raft::eraftpb::MessageType::MsgHeartbeatResponse as u8,
                raft::eraftpb::MessageType::MsgReadIndex as u8,
                raft::eraftpb::MessageType::MsgReadIndexResp as u8,
            ];
            let (reads, props, to, beats, dups, drops, crashes, ccs, reorders) = match l {
                0 => (1, 0, 0, 1, 0, 0, 0, 0, 0),
                1 => (1, 0, 1, 1, 0, 0, 0, 0, 0),
                2 if n.contains("-lagf") => (1, 1, 0, 1, 0, 0, 0, 0, 0),
                2 => (2, 0, 1, 1, 0, 0, 0, 0, 0),
                3 => (1, 1, 1, 1, 1, 0, 0, 0, 0),
                4 => (2, 1, 1, 1, 1, 0, 0, 0, 0),
                5 => (2, 1, 1, 2, 1, 1, 0, 0, 1),
                6 => (2, 1, 2, 2, 1, 1, 1, 0, 1),
                _ => (3, 2, 2, 3, 2, 1, 1, 1, 1),
            };
            let (drops, reorders) = if n.contains("-lagf") { (1, reorders) } else { (drops, reorders) };
            if n.contains("-lagf") {
                // the follower that issues the read misses an append
                s.fault_types = vec![raft::eraftpb::MessageType::MsgAppend as u8];
            }
            let ccs = if n.contains("-cc") { ccs.max(1) } else { 0 };
            if n.contains("-cc") && l <= 1 {
                s.clients_at = vec![1];
            }
            s.max_term = 3;
            s.max_index = 5;
            s.caps = caps(|c| {
                c.reads = reads;
                c.props = props;
                c.timeouts = to;
                c.beats = beats;
                c.dups = dups;
                c.drops = drops;
                c.crashes = crashes;
                c.ccs = ccs;
                c.reorders = reorders;
            });
            if n.contains("-div") {
                // node 1 holds a local-only (2, term 1); node 2 leads term 2 and committed its own
                // (2, term 2) with node 3; node 1 follows node 2 (it got a heartbeat) but its log
                // is not repaired yet: the probing append is still in flight. Node 1 reads.
                s.prefix = vec![
                    Action::Timeout(1),
                    Action::Settle,
                    Action::Propose(1, 0),
                    Action::Settle0(1),
                    Action::DropAll,
                    Action::Timeout(2),
                    Action::Settle0(2),
                    Action::Deliver(2, 3),
                    Action::Settle0(3),
                    Action::Deliver(3, 2),
                    Action::Settle0(2),
                    Action::Deliver(2, 3),
                    Action::Settle0(3),
                    Action::Deliver(3, 2),
                    Action::Settle0(2),
                    Action::DropAll,
                    Action::Tick(2),
                    Action::Settle0(2),
                    Action::Deliver(2, 1),
                    Action::Settle0(1),
                    Action::Deliver(1, 2),
                    Action::Settle0(2),
                ];
                s.clients_at = vec![1];
                s.timeoutable = vec![];
                s.crashable = vec![];
                s.fault_types = vec![raft::eraftpb::MessageType::MsgAppend as u8];
                s.caps = caps(|c| {
                    c.reads = 1;
                    c.props = 0;
                    c.beats = (l as u8).min(2);
                    c.drops = (l as u8).min(1);
                });
            }
            if n.contains("-five") {
                // 5 voters. Leader 1 (term 1) has a read pending whose heartbeat reached node 3
                // only; that acknowledgement is still in flight. Nodes 3,4,5 then elected node 3
                // (term 2), which committed its no-op. The stale leader 1 reads again.
                let base = Scenario::new(name, 5);
                s = Scenario { nodes: base.nodes, voters: base.voters, ..s };
                s.prefix = vec![
                    Action::Timeout(1),
                    Action::Settle,
                    Action::ReadIndex(1),
                    Action::Settle0(1),
                    Action::Deliver(1, 3),
                    Action::Settle0(3),
                    Action::Isolate(2),
                    Action::Isolate(4),
                    Action::Isolate(5),
                    Action::Timeout(3),
                    Action::Settle0(3),
                    Action::Deliver(3, 4),
                    Action::Settle0(4),
                    Action::Deliver(3, 5),
                    Action::Settle0(5),
                    Action::Deliver(4, 3),
                    Action::Settle0(3),
                    Action::Deliver(5, 3),
                    Action::Settle0(3),
                    Action::Deliver(3, 4),
                    Action::Settle0(4),
                    Action::Deliver(3, 5),
                    Action::Settle0(5),
                    Action::Deliver(4, 3),
                    Action::Settle0(3),
                    Action::Deliver(5, 3),
                    Action::Settle0(3),
                    Action::Isolate(4),
                    Action::Isolate(5),
                ];
                s.clients_at = vec![1];
                s.timeoutable = vec![];
                s.crashable = vec![];
                s.fault_types = vec![];
                s.caps = caps(|c| {
                    c.reads = 1;
                    c.beats = l as u8;
                });
            }
            if n.contains("-joint1") {
                // the leader committed (with node 2) and applied an explicit joint change that
                // removes 2 and 3: its configuration is (1)&&(1 2 3); nodes 2 and 3 never learn
                // the commit and may elect a leader of their own under the old configuration
                s.cc_menu = vec![CcSpec::V2(2, vec![(1, 2), (1, 3)])];
                s.prefix = vec![
                    Action::Timeout(1),
                    Action::Settle,
                    Action::ProposeCc(1, 0),
                    Action::Settle0(1),
                    Action::Deliver(1, 2),
                    Action::Settle0(2),
                    Action::Deliver(2, 1),
                    Action::Settle0(1),
                    Action::DropAll,
                ];
                s.clients_at = vec![1];
                s.timeoutable = vec![2];
                s.crashable = vec![];
                s.fault_types = vec![];
                s.caps = caps(|c| {
                    c.reads = 1;
                    c.timeouts = 1;
                    c.beats = l as u8;
                });
            }
            if n.contains("-samectx") {
                // followers 2 and 3 each forwarded a read carrying the same context bytes; both
                // requests are pending at the leader when exploration starts; one more read
                s.prefix = vec![
                    Action::Timeout(1),
                    Action::Settle,
                    Action::ReadIndex(2),
                    Action::Settle0(2),
                    Action::Deliver(2, 1),
                    Action::Settle0(1),
                    Action::ReadIndex(3),
                    Action::Settle0(3),
                    Action::Deliver(3, 1),
                    Action::Settle0(1),
                ];
                s.clients_at = vec![2];
                s.timeoutable = vec![];
                s.crashable = vec![];
                s.fault_types = vec![];
                s.caps = caps(|c| {
                    c.reads = 1;
                    c.beats = (l as u8).min(1);
                });
            }
            if n.contains("-regain") {
                // leader 1 had a read pending (its heartbeats were lost) when node 2 took over;
                // node 1 then won leadership back and committed in its new term: the read
                // bookkeeping of its first leadership must be gone
                s.prefix = vec![
                    Action::Timeout(1),
                    Action::Settle,
                    Action::ReadIndex(1),
                    Action::Settle0(1),
                    Action::DropAll,
                    Action::Timeout(2),
                    Action::Settle,
                    Action::Timeout(1),
                    Action::Settle,
                ];
                s.clients_at = vec![1, 2];
                s.timeoutable = vec![2];
                s.crashable = vec![];
                s.fault_types = vec![raft::eraftpb::MessageType::MsgHeartbeatResponse as u8];
                s.caps = caps(|c| {
                    c.reads = 1 + (l as u8).min(1);
                    c.beats = (l as u8).min(1);
                    c.timeouts = (l as u8) / 2;
                    c.drops = (l as u8).min(1);
                });
            }
            if n.contains("-swap") {
                // voters {1}, learner {2}; one auto-leave joint change swaps them: (2)&&(1).
                // Node 1 applies lazily: it may still be in the joint configuration (unapplied
                // leave-joint) while node 2 already is the only voter, elects itself and commits
                s = Scenario { nodes: s.nodes[..2].to_vec(), voters: vec![1], learners: vec![2], ..s };
                for (k, nd) in s.nodes.iter_mut().enumerate() {
                    nd.apply_lag = k == 0;
                }
                s.cc_menu = vec![CcSpec::V2(0, vec![(0, 2), (1, 1)])];
                s.prefix = vec![Action::Timeout(1), Action::Settle];
                s.clients_at = vec![1];
                s.timeoutable = vec![2];
                // -crash: the old voter may crash while it is a voter of the outgoing half only
                s.crashable = if n.contains("-crash") { vec![1] } else { vec![] };
                s.fault_types = vec![];
                s.caps = caps(|c| {
                    c.reads = 1;
                    c.ccs = 1;
                    c.props = (l as u8).min(1);
                    c.timeouts = 1;
                    c.beats = (l as u8).min(1);
                    c.crashes = if n.contains("-crash") { 1 } else { 0 };
                    c.drops = if n.contains("-crash") { 1 } else { 0 };
                });
            }
            if n.contains("-rm1") {
                // voters {1,2}; the leader 1 removed itself and keeps leading (raft-rs lets it);
                // the only remaining voter 2 may elect itself and commit on its own
                s = Scenario { nodes: s.nodes[..2].to_vec(), voters: vec![1, 2], ..s };
                s.cc_menu = vec![CcSpec::V1(1, 1)];
                s.prefix = vec![Action::Timeout(1), Action::Settle, Action::ProposeCc(1, 0), Action::Settle];
                s.clients_at = vec![1, 2];
                s.timeoutable = vec![2];
                s.crashable = vec![];
                s.fault_types = vec![];
                s.caps = caps(|c| {
                    c.reads = 1 + (l as u8) / 2;
                    c.props = (l as u8).min(1);
                    c.timeouts = 1;
                    c.beats = (l as u8).min(2);
                });
            }
            if n.contains("-single") {
                // one voter and a learner; fsync only when must_sync says so; several inputs per
                // Ready: a restarted single voter leads a new term before its no-op is persisted
                s = Scenario { nodes: s.nodes[..2].to_vec(), voters: vec![1], learners: vec![2], ..s };
                for nd in s.nodes.iter_mut() {
                    nd.skip_sync_when_allowed = true;
                }
                s.inputs_per_ready = 2;
                s.prefix = vec![Action::Timeout(1), Action::Settle, Action::Propose(1, 0), Action::Settle];
                s.clients_at = vec![1, 2];
                s.timeoutable = vec![1];
                s.crashable = vec![1];
                s.fault_types = vec![];
                s.caps = caps(|c| {
                    c.reads = 1 + (l as u8) / 2;
                    c.props = (l as u8).min(1);
                    c.timeouts = 1;
                    c.crashes = 1;
                    c.cuts = (l as u8).min(1);
                    c.lazy = 2;
                });
            }
        }
        // ------------------------------------------------------------ XFER
        n if n.starts_with("xfer") => {
            if n.contains("-abort") || n.contains("-pipe") || n.contains("-race") {
                s = Scenario::new(name, 3);
            } else {
                s = Scenario::new(name, 4);
                s.voters = vec![1, 2, 3];
                s.learners = vec![4];
            }
            for nd in s.nodes.iter_mut() {
                nd.pre_vote = n.contains("-pvcq");
                nd.check_quorum = n.contains("-pvcq");
            }
            s.prefix = vec![Action::Timeout(1), Action::Settle];
            if n.contains("-lag") {
                // follower 3 lags by one entry
                s.prefix = vec![
                    Action::Timeout(1),
                    Action::Settle,
                    Action::Crash(3, 9),
                    Action::Propose(1, 0),
                    Action::Settle,
                    Action::DropAll,
                    Action::Restart(3),
                ];
            }
            s.clients_at = vec![1, 2];
            s.timeoutable = vec![];
            s.transfer_targets = vec![0, 1, 2, 3, 4, 9];
            s.cc_menu = vec![CcSpec::V1(1, 3)];
            if n.contains("-cc") {
                // a pending transfer to a lagging voter meets a membership change of the target
                s.clients_at = vec![1];
                s.transfer_targets = vec![3];
                s.cc_menu = vec![CcSpec::V1(1, 3), CcSpec::V1(2, 3)];
                if n.contains("-dem2") {
                    // one joint change demotes the leader itself and the transfer target
                    s.cc_menu = vec![CcSpec::V2(0, vec![(2, 1), (2, 3)])];
                }
            }
            if n.contains("-lag2") {
                // the same lagging target is asked for twice
                s.clients_at = vec![1];
                s.transfer_targets = vec![3];
            }
            if n.contains("-al") {
                // the leader's application lags: its configuration can be behind the followers'
                s.nodes[0].apply_lag = true;
            }
            let pipe = n.contains("-pipe");
            if pipe {
                // two appends pipelined to the transfer target, acknowledged separately
                s.clients_at = vec![1];
                s.transfer_targets = vec![3];
                for nd in s.nodes.iter_mut() {
                    nd.max_size_per_msg = 0;
                }
            }
            let abort = n.contains("-abort");
            if abort {
                // one transfer to a voter, the leader ticks past the transfer timeout and goes on
                s.clients_at = vec![1];
                s.transfer_targets = vec![2];
                for nd in s.nodes.iter_mut() {
                    nd.heartbeat_tick = 2;
                }
            }
            if n.contains("-lost") {
                // the start state already holds a pending transfer whose MsgTimeoutNow was lost
                s.prefix.extend(vec![Action::Transfer(1, 2), Action::Settle0(1), Action::DropAll]);
            }
            if abort && l == 0 {
                // level 0: the only loss is that of the MsgTimeoutNow
                s.fault_types = vec![raft::eraftpb::MessageType::MsgTimeoutNow as u8];
            }
            let race = n.contains("-race");
            if race {
                // the transfer target's forced campaign races with an ordinary election of
                // node 3 for the same term
                s.clients_at = vec![1];
                s.transfer_targets = vec![2];
                s.timeoutable = vec![3];
            }
            let (xf, props, beats, drops, dups, ccs, mt) = match l {
                0 if race => (1, 0, 0, 0, 0, 0, 2),
                1 if race => (1, 1, 0, 1, 0, 0, 3),
                2 if race => (1, 1, 1, 1, 1, 0, 3),
                0 if n.contains("-lag2") => (2, 0, 0, 0, 0, 0, 3),
                1 if n.contains("-lag2") => (2, 1, 0, 1, 0, 0, 3),
                0 if n.contains("-cc") => (1, 0, 0, 0, 0, 1, 3),
                1 if n.contains("-cc") => (1, 1, 1, 1, 0, 1, 3),
                0 if pipe => (1, 2, 0, 1, 0, 0, 3),
                1 if pipe => (1, 2, 1, 1, 1, 0, 3),
                0 if abort => (1, 1, 3, 1, 0, 0, 3),
                1 if abort => (1, 1, 4, 1, 0, 0, 3),
                2 if abort => (2, 1, 4, 1, 1, 0, 3),
                0 => (1, 0, 0, 0, 0, 0, 3),
                1 => (1, 1, 0, 0, 0, 0, 3),
                2 => (2, 1, 3, 0, 0, 0, 3),
                3 => (2, 1, 4, 1, 0, 0, 3),
                4 => (2, 1, 4, 1, 1, 1, 4),
                _ => (3, 2, 4, 2, 1, 1, 4),
            };
            s.max_term = mt;
            s.max_index = 6;
            s.caps = caps(|c| {
                c.transfers = xf;
                c.props = props;
                c.beats = beats;
                c.drops = drops;
                c.dups = dups;
                c.ccs = ccs;
                if race {
                    c.timeouts = 1 + (l as u8) / 2;
                }
                if n.contains("-lost") {
                    c.transfers = 0;
                    c.drops = 0;
                    c.props = (l as u8).min(1);
                    c.beats = 2 + l as u8;
                }
                if n.contains("-two") {
                    // the leader takes two inputs before a Ready round: a proposal can be
                    // appended, but not yet persisted, when the transfer request arrives
                    c.props = props.max(1);
                    c.lazy = 2;
                }
            });
            if n.contains("-two") {
                s.inputs_per_ready = 2;
                s.clients_at = vec![1];
                s.transfer_targets = vec![2, 3];
            }
        }
        // ------------------------------------------------------------ LEASE
        // pre_vote + check_quorum everywhere; leader 1 and a majority in lock-step; the
        // remaining nodes do whatever they like
        n if n.starts_with("lease") => {
            let nn = if n.contains("5") { 5 } else { 3 };
            s = Scenario::new(name, nn);
            for nd in s.nodes.iter_mut() {
                nd.pre_vote = true;
                nd.check_quorum = true;
                nd.heartbeat_tick = if n.contains("-hb2") { 2 } else { 1 };
            }
            s.prefix = vec![Action::Timeout(1), Action::Settle];
            if n.contains("-stalegrant") {
                // Before node 1 was elected, node 3 pre-campaigned for term 2 and nodes 1 (then a
                // candidate) and 2 (no leader known) granted; both grants are still in flight.
                // Node 1 then won term 1 and node 3 follows it.
                s.prefix = vec![
                    Action::Timeout(1),
                    Action::Settle0(1),
                    Action::Deliver(1, 2),
                    Action::Settle0(2),
                    Action::Deliver(1, 3),
                    Action::Settle0(3),
                    Action::Deliver(2, 1),
                    Action::Settle0(1),
                    Action::Deliver(1, 2),
                    Action::Settle0(2),
                    Action::Deliver(1, 3),
                    Action::Settle0(3),
                    Action::Timeout(3),
                    Action::Settle0(3),
                    Action::DeliverK(3, 1, 2),
                    Action::Settle0(1),
                    Action::Deliver(3, 2),
                    Action::Settle0(2),
                    Action::Deliver(2, 1),
                    Action::Settle0(1),
                    Action::Deliver(1, 2),
                    Action::Settle0(2),
                    Action::Deliver(2, 1),
                    Action::Settle0(1),
                    Action::DeliverK(1, 3, 1),
                    Action::Settle0(3),
                    Action::Deliver(1, 2),
                    Action::Settle0(2),
                    Action::Deliver(2, 1),
                    Action::Settle0(1),
                    Action::Deliver(3, 1),
                    Action::Settle0(1),
                    Action::Deliver(3, 1),
                    Action::Settle0(1),
                    Action::Deliver(3, 1),
                    Action::Settle0(1),
                ];
            }
            s.lock_majority = if nn == 5 { vec![1, 2, 3] } else { vec![1, 2] };
            let minority: Vec<u8> = if nn == 5 { vec![4, 5] } else { vec![3] };
            s.timeoutable = minority.clone();
            s.tickable = minority.clone();
            s.crashable = minority.clone();
            s.clients_at = vec![];
            let (rounds, to, ticks_extra, crashes, dups, drops, mt) = match l {
                0 => (3, 1, 0, 0, 0, 0, 3),
                1 => (4, 2, 0, 0, 0, 0, 4),
                2 => (6, 2, 0, 1, 1, 0, 4),
                3 => (7, 3, 0, 1, 1, 1, 5),
                4 => (9, 3, 0, 1, 2, 1, 6),
                _ => (12, 4, 0, 2, 2, 2, 7),
            };
            let _ = ticks_extra;
            s.max_term = mt;
            s.max_index = 6;
            s.tickable = vec![];
            let req = n.contains("-req");
            s.lock_snap_lost = req;
            s.caps = caps(|c| {
                c.ticks = rounds;
                c.timeouts = to;
                c.crashes = crashes;
                c.dups = dups;
                c.drops = drops;
                if req {
                    // a lock-step follower asks for a snapshot that never arrives
                    c.reqsnaps = 1;
                }
            });
        }
        _ => return None,
    }
    s.mem_compact = memq;
    // "-gc": group commit in any family (node 1 in group 1, the others in group 2)
    if name.contains("-gc") && !s.group_commit {
        s.group_commit = true;
        for (k, nd) in s.nodes.iter_mut().enumerate() {
            nd.group_id = if k == 0 { 1 } else { 2 };
        }
    }
    // "-gpv": pre_vote on every node, whatever the family
    if name.contains("-gpv") {
        for nd in s.nodes.iter_mut() {
            nd.pre_vote = true;
        }
    }
    // "-api": every public RawNode entry point is offered to a clone in every state (C20)
    s.api_probe = name.contains("-api");
    if name.contains("-unpmax") {
        // apply-before-persist without a bound: the limit is set to u64::MAX (the value the
        // sibling knobs use for "no limit")
        for nd in s.nodes.iter_mut() {
            nd.max_apply_unpersisted = u64::MAX;
        }
    }
    if name.contains("-samectx") {
        s.same_read_ctx = true;
    }
    if name.contains("-emptyctx") {
        // the first read request carries the empty byte string as its (unique) context
        s.empty_first_ctx = true;
    }
    if name.contains("-gbatch") {
        for nd in s.nodes.iter_mut() {
            nd.batch_append = true;
        }
    }
    if name.contains("-camp") {
        // the application may call RawNode::campaign() once, on any node that may time out
        s.caps.campaigns = 1;
    }
    if name.contains("-adv") {
        // the application calls advance(rd) and, after the light ready, advance_apply()
        for nd in s.nodes.iter_mut() {
            if nd.mode == AppMode::Sync && !nd.apply_lag {
                nd.simple_advance = true;
            }
        }
    }
    if name.contains("-split") {
        // fsync only when must_sync says so; the state machine has a store of its own: after a
        // crash the applied index (and applied configuration) may be ahead of the durable commit
        for nd in s.nodes.iter_mut() {
            nd.skip_sync_when_allowed = true;
            nd.split_app_store = true;
        }
    }
    if live {
        let n = s.nodes.len();
        for nd in s.nodes.iter_mut() {
            nd.max_election_tick = nd.min_election_tick + n;
        }
    }
    s.name = format!("{}/L{}", full_name, level);
    Some(s)
}

pub fn leak(s: Scenario) -> &'static Scenario {
    Box::leak(Box::new(s))
}
