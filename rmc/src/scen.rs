//! Scenario drivers (DESIGN §3). `build(name, level)` returns the bounded, closed system
//! to explore; level k+1 always contains level k.

use crate::types::*;

fn caps(f: impl FnOnce(&mut Counts)) -> Counts {
    let mut c = Counts::default();
    f(&mut c);
    c
}

pub fn all_names() -> Vec<&'static str> {
    vec![
        "elect", "elect-pv", "elect-cq", "elect-pvcq", "elect-prio", "fig8", "fig8-div", "fig8-5",
    ]
}

pub fn build(name: &str, level: u8) -> Option<Scenario> {
    let l = level;
    let mut s;
    match name {
        // ------------------------------------------------------------ ELECT
        "elect" | "elect-pv" | "elect-cq" | "elect-pvcq" | "elect-prio" => {
            s = Scenario::new(name, 3);
            for n in s.nodes.iter_mut() {
                n.pre_vote = name.contains("pv");
                n.check_quorum = name.contains("cq");
            }
            if name == "elect-prio" {
                s.nodes[2].priority = 1;
            }
            s.crashable = vec![1, 2, 3];
            s.max_index = 8;
            // ladder
            let (mt, to, drops, dups, cuts, crashes, reorders, beats) = match l {
                1 => (2, 2, 0, 0, 0, 0, 0, 0),
                2 => (2, 2, 1, 1, 1, 0, 0, 0),
                3 => (3, 3, 0, 0, 0, 0, 0, 0),
                4 => (3, 3, 1, 0, 1, 0, 0, 1),
                5 => (3, 3, 1, 1, 1, 1, 0, 1),
                6 => (4, 4, 1, 1, 1, 1, 1, 2),
                _ => (5, 5, 2, 2, 2, 2, 1, 3),
            };
            s.max_term = mt;
            s.caps = caps(|c| {
                c.timeouts = to;
                c.drops = drops;
                c.dups = dups;
                c.cuts = cuts;
                c.crashes = crashes;
                c.reorders = reorders;
                c.beats = beats;
            });
        }
        // ------------------------------------------------------------ FIG8
        "fig8" | "fig8-div" | "fig8-5" => {
            let n = if name == "fig8-5" { 5 } else { 3 };
            s = Scenario::new(name, n);
            for nd in s.nodes.iter_mut() {
                nd.max_size_per_msg = 0; // one entry per append
            }
            s.crashable = (1..=n as u8).collect();
            s.clients_at = (1..=n as u8).collect();
            let (mt, to, props, drops, dups, crashes, mi) = match l {
                1 => (3, 2, 1, 0, 0, 0, 3),
                2 => (3, 3, 1, 0, 0, 0, 3),
                3 => (3, 3, 1, 1, 0, 1, 4),
                4 => (4, 4, 1, 0, 0, 0, 4),
                5 => (4, 4, 2, 1, 0, 1, 5),
                6 => (5, 5, 2, 1, 1, 1, 5),
                _ => (6, 5, 3, 2, 1, 2, 5),
            };
            s.max_term = mt;
            s.max_index = mi;
            s.caps = caps(|c| {
                c.timeouts = to;
                c.props = props;
                c.drops = drops;
                c.dups = dups;
                c.crashes = crashes;
            });
            if name == "fig8-div" {
                // node 1 led term 1 and node 3 led term 2, each with a local-only entry:
                // the state just before a Figure-8 hand-over
                s.prefix = vec![
                    Action::Timeout(1),
                    Action::Ready(1, Cut::None),
                    Action::Deliver(1, 2),
                    Action::Ready(2, Cut::None),
                    Action::Deliver(1, 3),
                    Action::Ready(3, Cut::None),
                    Action::Deliver(2, 1),
                    Action::Ready(1, Cut::None), // 1 leader of term 1, no-op at index 1 local
                    Action::DropAll,
                    Action::Timeout(3),
                    Action::Ready(3, Cut::None),
                    Action::Deliver(3, 2),
                    Action::Ready(2, Cut::None),
                    Action::Deliver(2, 3),
                    Action::Ready(3, Cut::None), // 3 leader of term 2, no-op at index 1 local
                    Action::DropAll,
                ];
                s.max_term = mt + 1;
            }
        }
        _ => return None,
    }
    s.name = format!("{}/L{}", name, level);
    Some(s)
}

pub fn leak(s: Scenario) -> &'static Scenario {
    Box::leak(Box::new(s))
}
