//! Property monitors, evaluated after every individual API call (`after_call`), at every
//! message release (`on_release`), at every Ready (`check_ready`, `check_hand_out`) and on
//! every state (`observe_state`). Ghost history variables live in `World::ghost`,
//! `Node::g` and the application-side fields of `Live`.

use crate::refconf::RefConf;
use crate::types::*;
use crate::util::*;
use crate::world::*;
use raft::eraftpb::{Entry, EntryType, Message, MessageType, Snapshot};
use raft::{SnapshotStatus, ProgressState, Ready, StateRole};
use std::collections::BTreeSet;

#[derive(Clone, Debug)]
pub struct PrPre {
    pub id: u64,
    pub state: ProgressState,
    pub next_idx: u64,
    pub matched: u64,
    pub full: bool,
    pub pending_snapshot: u64,
    pub pending_request_snapshot: u64,
}

fn is_conf(ty: u8) -> bool {
    ty == EntryType::EntryConfChange as u8 || ty == EntryType::EntryConfChangeV2 as u8
}

impl World {
    pub fn flow_pre(&self, i: usize) -> Vec<PrPre> {
        let l = self.live(i).unwrap();
        let r = &l.rn.raft;
        if r.state != StateRole::Leader {
            return vec![];
        }
        r.prs()
            .iter()
            .map(|(id, p)| PrPre {
                id: *id,
                state: p.state,
                next_idx: p.next_idx,
                matched: p.matched,
                full: p.ins.full(),
                pending_snapshot: p.pending_snapshot,
                pending_request_snapshot: p.pending_request_snapshot,
            })
            .collect()
    }

    fn my_conf(&self, i: usize) -> RefConf {
        RefConf::from_cs(&self.live(i).unwrap().rn.raft.prs().conf().to_conf_state())
    }

    // ------------------------------------------------------------------ C01 registry

    /// Node i reports index `idx` as committed with this (term, digest).
    fn c01_report(&mut self, i: usize, idx: u64, term: u64, dig: u64, how: &str, by_term: u64, ctx: &mut Ctx) {
        let g = &mut self.ghost;
        while g.cl.len() <= idx as usize {
            g.cl.push(None);
            g.cl_fold.push(None);
            g.commit_term_of.push(0);
        }
        match g.cl[idx as usize] {
            Some((t, d)) => {
                if t != term || d != dig {
                    ctx.v(
                        "C01",
                        format!("committed entry differs ({})", how),
                        format!(
                            "node {} reports index {} committed as (term {}, dig {:x}) via {} but it was committed as (term {}, dig {:x})",
                            i + 1, idx, term, dig, how, t, d
                        ),
                    );
                }
            }
            None => {
                g.cl[idx as usize] = Some((term, dig));
                g.commit_term_of[idx as usize] = by_term;
                if let Some(Some(prev)) = g.cl_fold.get(idx as usize - 1).cloned() {
                    g.cl_fold[idx as usize] = Some(sm_fold(prev, idx, dig));
                    // later entries may have been registered out of order
                    let mut k = idx as usize + 1;
                    while k < g.cl.len() {
                        match (g.cl[k], g.cl_fold[k - 1]) {
                            (Some((_, d)), Some(p)) if g.cl_fold[k].is_none() => {
                                g.cl_fold[k] = Some(sm_fold(p, k as u64, d));
                                k += 1;
                            }
                            _ => break,
                        }
                    }
                }
            }
        }
    }

    /// Only the term of `idx` is known (snapshot boundary).
    fn c01_report_term(&mut self, i: usize, idx: u64, term: u64, how: &str, ctx: &mut Ctx) {
        if let Some(Some((t, _))) = self.ghost.cl.get(idx as usize) {
            if *t != term {
                ctx.v(
                    "C01",
                    format!("committed term differs ({})", how),
                    format!(
                        "node {} reports index {} committed with term {} via {} but it was committed with term {}",
                        i + 1, idx, term, how, t
                    ),
                );
            }
        }
    }

    // ------------------------------------------------------------------ per-state observation

    /// Invariants on node i's current state (called after every API call on it).
    pub fn observe_state(&mut self, i: usize, post: &Snap, ctx: &mut Ctx) {
        let id = i as u64 + 1;
        // C11: group commit stays on once the application enabled it (the commit rule
        // "replicated in at least two groups" silently degrades otherwise)
        if self.scen.group_commit {
            if let Some(l) = self.live(i) {
                if !l.rn.raft.prs().group_commit() {
                    ctx.v(
                        "C11",
                        "group commit was switched off by the library",
                        format!("node {}: enable_group_commit(true) was called at start-up, the tracker now reports it off", id),
                    );
                }
            }
        }
        // C12 (cluster side): the tracker holds progress for exactly the members of the node's
        // active configuration, whichever way that configuration was reached (conf change,
        // snapshot restore, restart)
        if let Some(l) = self.live(i) {
            let prs = l.rn.raft.prs();
            let conf = RefConf::from_cs(&prs.conf().to_conf_state());
            let members = conf.members();
            let tracked: BTreeSet<u64> = prs.iter().map(|(k, _)| *k).collect();
            if tracked != members {
                ctx.v(
                    "C12",
                    "tracker holds progress for other nodes than the members of its configuration",
                    format!("node {}: progress for {:?}, configuration members {:?}", id, tracked, members),
                );
            }
        }
        // C09(a) as a state invariant: a leader's log holds at most one membership change of
        // its own term beyond its applied index (the auto-leave entry the library appends by
        // itself included; inherited entries of older terms are the previous leaders' business)
        if post.role == StateRole::Leader {
            let cnt = (post.applied + 1..=post.last)
                .filter(|k| post.at(*k).map(|x| is_conf(x.2) && x.0 == post.term).unwrap_or(false))
                .count();
            if cnt > 1 {
                ctx.v(
                    "C09",
                    "more than one own-term membership change beyond applied",
                    format!("leader {} holds {} own-term conf entries in ({}, {}]", id, cnt, post.applied, post.last),
                );
            }
        }
        // C07: the library never counts as applied what the application has not applied yet
        if let Some(l) = self.live(i) {
            let app = l.rn.store().app.applied;
            if post.applied > app {
                ctx.v(
                    "C07",
                    "library's applied index is ahead of what the application applied",
                    format!("node {}: raft_log.applied = {} but the application has applied up to {}", id, post.applied, app),
                );
            }
        }
        // C07/C06: what the library counts as persisted is durable. For every retained index up
        // to `persisted` the durable log holds the entry the node holds (the persisted index
        // drives hand-out, acknowledgements and the leader's own vote for a commit)
        {
            let d = &self.nodes[i].disk;
            let lo = post.first.max(d.snap_index + 1);
            for k in lo..=post.persisted.min(post.last) {
                let mine = post.at(k).map(|x| x.0);
                let dur = d.term_of(k);
                if mine.is_some() && dur != mine {
                    ctx.v(
                        "C07",
                        "persisted index covers an entry that is not durable",
                        format!(
                            "node {}: persisted = {} but index {} (term {:?}) is on durable storage as {:?}",
                            id, post.persisted, k, mine, dur
                        ),
                    );
                    break;
                }
            }
        }
        // C02: one leader per term
        if post.role == StateRole::Leader {
            let durable = {
                let d = &self.nodes[i].disk;
                d.hs.term == post.term && d.hs.vote == id
            };
            {
                let nd = &self.nodes[i];
                if nd.g.lost_cc_commit > 0 && post.applied < nd.g.lost_cc_commit {
                    self.ghost.leader_torn.insert(post.term);
                }
            }
            match self.ghost.leader_of.get(&post.term) {
                Some(l) if *l != id => {
                    // a leadership that existed in memory only (a single-voter node elects
                    // itself before its vote is persisted and crashed before the write) gets
                    // its own signature
                    // a crash between the write of entries and the write of the hard state
                    // that carried their commit index left one of the two with a membership
                    // change in its log that it no longer knows to be committed: it campaigned
                    // under a configuration more than one change old
                    let kind = if self.ghost.leader_volatile.contains(&post.term) {
                        "two leaders in one term [the first never persisted its self-vote: single-voter self-election lost in a crash]"
                    } else if self.ghost.leader_torn.contains(&post.term) {
                        "two leaders in one term [one of them lost its commit index over a membership change in a torn write and campaigned under a configuration two changes old]"
                    } else {
                        "two leaders in one term"
                    };
                    ctx.v(
                        "C02",
                        kind,
                        format!("node {} and node {} are both leader of term {}", l, id, post.term),
                    );
                }
                Some(_) => {
                    if durable {
                        self.ghost.leader_volatile.remove(&post.term);
                    }
                }
                None => {
                    ctx.stat(Stat::LeadersSeen);
                    // C11 (vote tally, cluster side): a node wins an election only with released
                    // grants of that term from a majority of each voter set of its own
                    // configuration (itself included)
                    {
                        let conf = self.my_conf(i);
                        let mut grantors: BTreeSet<u64> = BTreeSet::new();
                        grantors.insert(id);
                        for (k, nd) in self.nodes.iter().enumerate() {
                            if nd.g.votes.iter().any(|(t, c)| *t == post.term && *c == id) {
                                grantors.insert(k as u64 + 1);
                            }
                        }
                        ctx.stat(Stat::TalliesChecked);
                        if !conf.is_quorum(&grantors) {
                            ctx.v(
                                "C11",
                                "election won without grants from a majority of each voter set",
                                format!(
                                    "node {} became leader of term {} with configuration {:?}, but only {:?} granted it that term",
                                    id, post.term, conf, grantors
                                ),
                            );
                        }
                    }
                    self.ghost.leader_of.insert(post.term, id);
                    if !durable {
                        self.ghost.leader_volatile.insert(post.term);
                    }
                }
            }
            // C03(a): leader completeness
            let n = self.ghost.cl.len();
            for idx in 1..n {
                if let Some((t, d)) = self.ghost.cl[idx] {
                    if self.ghost.commit_term_of[idx] < post.term {
                        let idx = idx as u64;
                        if idx < post.first {
                            if idx == post.first - 1 && post.base_term != t {
                                ctx.v(
                                    "C03",
                                    "leader snapshot boundary term differs from committed entry",
                                    format!("leader {} term {}: boundary index {} has term {} but committed term {}", id, post.term, idx, post.base_term, t),
                                );
                            }
                            continue;
                        }
                        match post.at(idx) {
                            Some((lt, ld, _)) if lt == t && ld == d => {}
                            other => {
                                ctx.v(
                                    "C03",
                                    "leader misses committed entry",
                                    format!(
                                        "leader {} of term {} has {:?} at index {} but (term {}, dig {:x}) was committed in term {}",
                                        id, post.term, other.map(|x| (x.0, x.1)), idx, t, d, self.ghost.commit_term_of[idx as usize]
                                    ),
                                );
                            }
                        }
                    }
                }
            }
        }
        // C01: the node's retained committed prefix agrees with the registry
        let hi = post.committed.min(post.last);
        for idx in post.first..=hi {
            if let (Some((t, d, _)), Some(Some((ct, cd)))) = (post.at(idx), self.ghost.cl.get(idx as usize)) {
                if t != *ct || d != *cd {
                    ctx.v(
                        "C01",
                        "committed entry differs (log below commit index)",
                        format!(
                            "node {} holds (term {}, dig {:x}) at committed index {} but (term {}, dig {:x}) was committed",
                            id, t, d, idx, ct, cd
                        ),
                    );
                }
            }
        }
        if post.committed > self.ghost.max_commit_ever {
            self.ghost.max_commit_ever = post.committed;
        }
    }

    /// C05 state part: log matching between node i and every other live node.
    pub fn check_log_matching(&self, i: usize, ctx: &mut Ctx) {
        let Some(li) = self.live(i) else { return };
        let a = snap_of(&li.rn);
        for j in 0..self.n() {
            if j == i {
                continue;
            }
            let Some(lj) = self.live(j) else { continue };
            let b = snap_of(&lj.rn);
            let lo = a.first.max(b.first);
            let hi = a.last.min(b.last);
            if lo > hi {
                continue;
            }
            // highest common index with equal term
            let mut m = None;
            let mut k = hi;
            while k >= lo {
                if a.at(k).unwrap().0 == b.at(k).unwrap().0 {
                    m = Some(k);
                    break;
                }
                k -= 1;
            }
            if let Some(m) = m {
                for idx in lo..=m {
                    let (x, y) = (a.at(idx).unwrap(), b.at(idx).unwrap());
                    if x.0 != y.0 || x.1 != y.1 {
                        ctx.v(
                            "C05",
                            "log matching violated",
                            format!(
                                "nodes {} and {} agree on term at index {} but differ at index {}: ({}, {:x}) vs ({}, {:x})",
                                i + 1, j + 1, m, idx, x.0, x.1, y.0, y.1
                            ),
                        );
                        break;
                    }
                }
            }
        }
    }

    // ------------------------------------------------------------------ after every call

    pub fn after_call(
        &mut self,
        i: usize,
        kind: &CallKind,
        pre: &Snap,
        post: &Snap,
        pre_flow: &[PrPre],
        ctx: &mut Ctx,
    ) {
        let id = i as u64 + 1;

        // ---- C06(a): term never decreases within an incarnation
        if post.term < pre.term {
            ctx.v(
                "C06",
                "term decreased",
                format!("node {} term {} -> {}", id, pre.term, post.term),
            );
        }
        if post.term > pre.term {
            ctx.stat(Stat::TermRaises);
        }

        // ---- leader bookkeeping for application-side models
        if post.role == StateRole::Leader && (pre.role != StateRole::Leader || pre.term != post.term) {
            let l = self.nodes[i].live.as_mut().unwrap();
            l.lead_term = post.term;
            // entries above the tail are own-term entries (the first one is the no-op)
            let mut tail = post.last;
            while tail >= post.first && post.at(tail).map(|x| x.0) == Some(post.term) {
                tail -= 1;
            }
            l.lead_tail = tail;
            l.u_bytes = 0;
            l.flow.clear();
            l.xfer = None;
        }
        if post.role != StateRole::Leader && pre.role == StateRole::Leader {
            let l = self.nodes[i].live.as_mut().unwrap();
            l.flow.clear();
            l.snap_out.clear();
            l.snap_idx.clear();
            l.xfer = None;
        }
        // acknowledgements generated by this call: remember the term of the acked entry
        if !matches!(kind, CallKind::Ready | CallKind::Advance) {
            let l = self.nodes[i].live.as_mut().unwrap();
            let n = l.rn.raft.msgs.len();
            for k in pre.msgs_len.min(n)..n {
                let m = &l.rn.raft.msgs[k];
                if m.get_msg_type() == MessageType::MsgAppendResponse && !m.reject {
                    let et = if m.index == post.first - 1 { post.base_term } else { post.at(m.index).map(|x| x.0).unwrap_or(0) };
                    let rec = (m.term, m.index, et);
                    if !l.ack_terms.contains(&rec) {
                        l.ack_terms.push(rec);
                    }
                }
            }
        }

        // ---- C16(a): a pre-vote request never changes term or vote
        if let CallKind::Step(m) = kind {
            if m.get_msg_type() == MessageType::MsgRequestPreVote {
                ctx.stat(Stat::PreVoteDelivered);
                if post.term != pre.term || post.vote != pre.vote {
                    ctx.v(
                        "C16",
                        "pre-vote request changed term or vote",
                        format!(
                            "node {} (term {}, vote {}) -> (term {}, vote {}) on MsgRequestPreVote from {} term {}",
                            id, pre.term, pre.vote, post.term, post.vote, m.from, m.term
                        ),
                    );
                }
            }
        }
        // ---- C16(b): with pre-vote, a term raise needs a won pre-vote, a peer's higher
        // term, or an explicit transfer
        self.c16_prevote_tally(i, kind, pre, post, ctx);

        // ---- C05 transitions
        if pre.role == StateRole::Leader && post.role == StateRole::Leader && pre.term == post.term {
            let lo = pre.first.max(post.first);
            for idx in lo..=pre.last {
                if post.at(idx).map(|x| (x.0, x.1)) != pre.at(idx).map(|x| (x.0, x.1)) {
                    ctx.v(
                        "C05",
                        "leader rewrote its own log",
                        format!(
                            "leader {} term {}: index {} was {:?} now {:?}",
                            id, pre.term, idx, pre.at(idx).map(|x| x.0), post.at(idx).map(|x| x.0)
                        ),
                    );
                    break;
                }
            }
        }
        {
            let lo = pre.first.max(post.first);
            let hi = pre.committed.min(pre.last);
            for idx in lo..=hi {
                if post.at(idx).map(|x| (x.0, x.1)) != pre.at(idx).map(|x| (x.0, x.1)) {
                    ctx.v(
                        "C05",
                        "entry at or below commit index replaced",
                        format!(
                            "node {}: committed index {} (commit {}) was {:?} now {:?}",
                            id, idx, pre.committed, pre.at(idx).map(|x| x.0), post.at(idx).map(|x| x.0)
                        ),
                    );
                    break;
                }
            }
            if post.last < pre.last || (post.first <= pre.last && post.at(pre.last).map(|x| x.0) != pre.at(pre.last).map(|x| x.0) && pre.last >= post.first && pre.last >= pre.first) {
                ctx.stat(Stat::Truncations);
            }
            if post.committed < pre.committed {
                ctx.v(
                    "C05",
                    "commit index decreased",
                    format!("node {} commit {} -> {}", id, pre.committed, post.committed),
                );
            }
        }

        // ---- commit advance: C04, C01 registry, C03 commit terms
        if post.committed > pre.committed {
            ctx.stat(Stat::CommitAdvances);
            let by_leader = pre.role == StateRole::Leader && post.role == StateRole::Leader && pre.term == post.term;
            if by_leader {
                self.c04_leader_commit(i, pre, post, ctx);
                for idx in (pre.committed + 1)..=post.committed.min(63) {
                    self.ghost.cl_by_leader |= 1 << idx;
                }
            } else if !matches!(kind, CallKind::New) && post.committed > self.ghost.max_leader_commit {
                ctx.v(
                    "C04",
                    "non-leader commit beyond any leader commit",
                    format!(
                        "node {} ({:?}) commit {} -> {} but no leader committed beyond {}",
                        id, post.role, pre.committed, post.committed, self.ghost.max_leader_commit
                    ),
                );
            } else if !matches!(kind, CallKind::New) {
                // every index a non-leader marks committed was committed by a leader under the
                // commit rule, and with the entry this node holds there
                for idx in (pre.committed + 1)..=post.committed.min(63) {
                    let by_l = self.ghost.cl_by_leader & (1 << idx) != 0;
                    let reg = self.ghost.cl.get(idx as usize).cloned().flatten();
                    let mine = post.at(idx).map(|x| (x.0, x.1));
                    let same = match (reg, mine) {
                        (Some(r), Some(m)) => r == m,
                        (Some(r), None) if idx == post.first - 1 => r.0 == post.base_term,
                        _ => true,
                    };
                    if !by_l || reg.is_none() || !same {
                        ctx.v(
                            "C04",
                            "non-leader commit covers an entry no leader committed",
                            format!(
                                "node {} ({:?}) commit {} -> {}: index {} held as {:?}, committed by a leader: {} as {:?}",
                                id, post.role, pre.committed, post.committed, idx, mine.map(|m| m.0), by_l, reg.map(|r| r.0)
                            ),
                        );
                        break;
                    }
                }
            }
            for idx in (pre.committed + 1)..=post.committed {
                if let Some((t, d, _)) = post.at(idx) {
                    self.c01_report(i, idx, t, d, "commit index", post.term, ctx);
                } else if idx == post.first - 1 {
                    self.c01_report_term(i, idx, post.base_term, "commit index at snapshot boundary", ctx);
                }
            }
        }
        if post.role == StateRole::Leader && post.committed > self.ghost.max_leader_commit {
            self.ghost.max_leader_commit = post.committed;
        }

        // ---- generated messages
        if !matches!(kind, CallKind::Ready | CallKind::Advance) {
            let l = self.live(i).unwrap();
            let msgs = &l.rn.raft.msgs;
            let mut fresh: Vec<(Message, bool)> = vec![];
            match &pre.msgs {
                Some(old) => {
                    for (k, m) in msgs.iter().enumerate() {
                        if k >= old.len() {
                            fresh.push((m.clone(), true));
                        } else if *m != old[k] {
                            // batch_append edits queued messages; an empty append that now
                            // carries entries counts as a newly generated entry-carrying append
                            let became_carrying = m.get_msg_type() == MessageType::MsgAppend
                                && old[k].entries.is_empty()
                                && !m.entries.is_empty();
                            fresh.push((m.clone(), became_carrying));
                        }
                    }
                }
                None => {
                    for m in msgs.iter().skip(pre.msgs_len) {
                        fresh.push((m.clone(), true));
                    }
                }
            }
            self.on_generated(i, kind, pre, post, pre_flow, &fresh, ctx);
        }

        // ---- C09(b): elections
        self.c09_election(i, kind, pre, post, ctx);
        // ---- C09(a) / C13 / C17: proposals
        self.check_proposal(i, kind, pre, post, ctx);
        // ---- C17 bookkeeping
        self.c17_transfer(i, kind, pre, post, ctx);
        // ---- C15
        self.c15_snapshot(i, kind, pre, post, pre_flow, ctx);

        self.observe_state(i, post, ctx);
        self.check_log_matching(i, ctx);
    }

    // ------------------------------------------------------------------ C04

    fn c04_leader_commit(&mut self, i: usize, pre: &Snap, post: &Snap, ctx: &mut Ctx) {
        let id = i as u64 + 1;
        let c = post.committed;
        let t = post.term;
        match post.at(c) {
            Some((et, _, _)) if et == t => {}
            other => {
                ctx.v(
                    "C04",
                    "leader committed an entry not of its own term",
                    format!(
                        "leader {} term {} advanced commit {} -> {} but entry there has term {:?}",
                        id, t, pre.committed, c, other.map(|x| x.0)
                    ),
                );
                return;
            }
        }
        let conf = self.my_conf(i);
        let mut all_holders: Vec<u64> = vec![];
        for (name, half) in [("incoming", &conf.voters), ("outgoing", &conf.outgoing)] {
            if half.is_empty() {
                continue;
            }
            let mut holders = 0;
            let mut who = vec![];
            for v in half.iter() {
                let vi = *v as usize - 1;
                if vi >= self.n() {
                    continue;
                }
                let d = &self.nodes[vi].disk;
                let has = d.snap_index > c || d.term_of(c) == Some(t);
                if has {
                    holders += 1;
                    who.push(*v);
                    if !all_holders.contains(v) {
                        all_holders.push(*v);
                    }
                }
            }
            if holders < half.len() / 2 + 1 {
                ctx.v(
                    "C04",
                    "commit without a durable quorum",
                    format!(
                        "leader {} term {} advanced commit {} -> {} but entry ({}, term {}) is durable only on {:?} of {} voters {:?}",
                        id, t, pre.committed, c, c, t, who, name, half
                    ),
                );
            }
        }
        // C11 (group commit, cluster side): when the application gave every voter a group and
        // the tracker holds exactly that assignment, a committed entry is durable in at least
        // two groups (unless all voters share one group)
        if self.scen.group_commit {
            let l = self.live(i).unwrap();
            let prs = l.rn.raft.prs();
            if prs.group_commit() {
                let mut groups_all: Vec<u64> = vec![];
                let mut complete = true;
                for v in conf.voters.iter().chain(conf.outgoing.iter()) {
                    let want = self.scen.nodes.get(*v as usize - 1).map(|c| c.group_id).unwrap_or(0);
                    let have = prs.get(*v).map(|p| p.commit_group_id).unwrap_or(0);
                    if want == 0 || have != want {
                        complete = false;
                        break;
                    }
                    if !groups_all.contains(&want) {
                        groups_all.push(want);
                    }
                }
                if complete && groups_all.len() >= 2 {
                    ctx.stat(Stat::GroupCommitChecked);
                    let mut held: Vec<u64> = vec![];
                    for v in &all_holders {
                        let g = self.scen.nodes[*v as usize - 1].group_id;
                        if !held.contains(&g) {
                            held.push(g);
                        }
                    }
                    if held.len() < 2 {
                        ctx.v(
                            "C11",
                            "group commit: committed entry is durable in fewer than two groups",
                            format!(
                                "leader {} term {} advanced commit {} -> {} with every voter grouped, but the entry is durable only on {:?} (groups {:?})",
                                id, t, pre.committed, c, all_holders, held
                            ),
                        );
                    }
                }
            }
        }
    }

    // ------------------------------------------------------------------ generated messages

    fn on_generated(
        &mut self,
        i: usize,
        kind: &CallKind,
        pre: &Snap,
        post: &Snap,
        pre_flow: &[PrPre],
        fresh: &[(Message, bool)],
        ctx: &mut Ctx,
    ) {
        let id = i as u64 + 1;
        // ---- C03(b): every (pre-)vote grant satisfies the up-to-date rule
        if let CallKind::Step(m) = kind {
            let t = m.get_msg_type();
            if t == MessageType::MsgRequestVote || t == MessageType::MsgRequestPreVote {
                let rt = if t == MessageType::MsgRequestVote {
                    MessageType::MsgRequestVoteResponse
                } else {
                    MessageType::MsgRequestPreVoteResponse
                };
                for (g, _) in fresh {
                    if g.get_msg_type() == rt && g.to == m.from && !g.reject {
                        if t == MessageType::MsgRequestVote {
                            ctx.stat(Stat::VotesGranted);
                        } else {
                            ctx.stat(Stat::PreVotesGranted);
                        }
                        let ok = m.log_term > pre.last_term || (m.log_term == pre.last_term && m.index >= pre.last);
                        if !ok {
                            ctx.v(
                                "C03",
                                format!("{:?} granted to a candidate with an older log", t),
                                format!(
                                    "node {} (last term {}, last index {}) granted {:?} to {} whose log ends at (term {}, index {})",
                                    id, pre.last_term, pre.last, t, m.from, m.log_term, m.index
                                ),
                            );
                        }
                    }
                }
            }
        }
        if post.role != StateRole::Leader {
            return;
        }
        self.c13_messages(i, kind, pre, post, pre_flow, fresh, ctx);
        // ---- C17: MsgTimeoutNow only to a caught-up target
        for (m, _) in fresh {
            if m.get_msg_type() == MessageType::MsgTimeoutNow {
                ctx.stat(Stat::TimeoutNowSent);
                let l = self.live(i).unwrap();
                let matched = l.rn.raft.prs().get(m.to).map(|p| p.matched);
                if matched != Some(post.last) {
                    ctx.v(
                        "C17",
                        "MsgTimeoutNow to a target that is not caught up",
                        format!(
                            "leader {} sent MsgTimeoutNow to {} with matched {:?} but last index {}",
                            id, m.to, matched, post.last
                        ),
                    );
                }
            }
        }
    }

    /// Messages generated inside advance_append land directly in the LightReady.
    pub fn on_generated_light(&mut self, i: usize, msgs: &[Message], ctx: &mut Ctx) {
        if msgs.is_empty() {
            return;
        }
        let post = snap_of(&self.live(i).unwrap().rn);
        if post.role != StateRole::Leader {
            return;
        }
        let pre_flow = self.flow_pre(i);
        let fresh: Vec<(Message, bool)> = msgs.iter().map(|m| (m.clone(), true)).collect();
        self.c13_messages(i, &CallKind::Advance, &post, &post, &pre_flow, &fresh, ctx);
    }

    // ------------------------------------------------------------------ C13

    fn c13_messages(
        &mut self,
        i: usize,
        kind: &CallKind,
        pre: &Snap,
        post: &Snap,
        pre_flow: &[PrPre],
        fresh: &[(Message, bool)],
        ctx: &mut Ctx,
    ) {
        let id = i as u64 + 1;
        let cfg = self.cfg(i);
        // (1) frees / resets caused by this call
        let same_lead = pre.role == StateRole::Leader && post.role == StateRole::Leader && pre.term == post.term;
        if !same_lead && post.role != StateRole::Leader {
            // well-formedness of messages generated before stepping down is still checked below
        }
        let post_prs: Vec<(u64, ProgressState, u64, bool)> = {
            let l = self.live(i).unwrap();
            l.rn.raft
                .prs()
                .iter()
                .map(|(pid, p)| (*pid, p.state, p.matched, p.ins.full()))
                .collect()
        };
        let mut responded: Option<u64> = None;
        if same_lead {
            if let CallKind::Step(m) = kind {
                if m.term == pre.term {
                    let l = self.nodes[i].live.as_mut().unwrap();
                    match m.get_msg_type() {
                        MessageType::MsgAppendResponse => {
                            // an append response ends the outstanding probe only if the leader
                            // acts on it: an acknowledgement beyond `matched`, or a rejection
                            // of the probe itself (or one that asks for a snapshot); stale and
                            // duplicated responses change nothing
                            let p = pre_flow.iter().find(|p| p.id == m.from);
                            let fresh = match p {
                                None => true,
                                Some(p) if !m.reject => m.index > p.matched,
                                Some(p) => {
                                    m.request_snapshot != 0
                                        || (p.state == ProgressState::Replicate && m.index >= p.matched)
                                        || (p.state != ProgressState::Replicate && p.next_idx == m.index + 1)
                                }
                            };
                            if fresh {
                                responded = Some(m.from);
                            }
                            if !m.reject {
                                if let Some(f) = l.flow.get_mut(&m.from) {
                                    if m.index > f.acked {
                                        f.acked = m.index;
                                    }
                                    while f.window.front().map(|x| *x <= m.index).unwrap_or(false) {
                                        f.window.pop_front();
                                    }
                                }
                            }
                        }
                        MessageType::MsgHeartbeatResponse => {
                            responded = Some(m.from);
                            let was_full = pre_flow.iter().find(|p| p.id == m.from).map(|p| p.full && p.state == ProgressState::Replicate).unwrap_or(false);
                            if was_full {
                                if let Some(f) = l.flow.get_mut(&m.from) {
                                    f.window.pop_front();
                                }
                            }
                        }
                        _ => {}
                    }
                }
            }
        }
        let mut left_snapshot: Vec<u64> = vec![];
        let mut entered_replicate: Vec<u64> = vec![];
        {
            let default_cap = cfg.max_inflight;
            let l = self.nodes[i].live.as_mut().unwrap();
            // drop ghosts of removed peers; reset on state change
            let ids: Vec<u64> = l.flow.keys().cloned().collect();
            for fid in ids {
                if !post_prs.iter().any(|p| p.0 == fid) {
                    l.flow.remove(&fid);
                }
            }
            for (pid, st, _, _) in &post_prs {
                if *pid == id {
                    continue;
                }
                let pre_st = pre_flow.iter().find(|p| p.id == *pid).map(|p| p.state);
                let f = l.flow.entry(*pid).or_insert_with(|| FlowGhost {
                    window: Default::default(),
                    bound: default_cap,
                    probe_out: false,
                    acked: 0,
                });
                if pre_st != Some(*st) || !same_lead {
                    f.window.clear();
                    f.probe_out = false;
                }
                // a snapshot stays outstanding until the follower answers or the application
                // reports its fate: nothing else may reopen the append stream
                if same_lead && pre_st == Some(ProgressState::Snapshot) && *st != ProgressState::Snapshot {
                    let ok = match kind {
                        CallKind::ReportSnap(to, _) => *to == *pid,
                        CallKind::Step(m) => m.from == *pid && m.get_msg_type() == MessageType::MsgAppendResponse,
                        _ => false,
                    };
                    if !ok {
                        left_snapshot.push(*pid);
                    }
                }
                // optimistic replication starts only on the follower's own acknowledgement
                if same_lead && pre_st.is_some() && pre_st != Some(ProgressState::Replicate) && *st == ProgressState::Replicate {
                    let ok = match kind {
                        CallKind::Step(m) => m.from == *pid && m.get_msg_type() == MessageType::MsgAppendResponse && !m.reject,
                        _ => false,
                    };
                    if !ok {
                        entered_replicate.push(*pid);
                    }
                }
                if responded == Some(*pid) {
                    f.probe_out = false;
                }
            }
        }
        for pid in entered_replicate {
            ctx.v(
                "C13",
                "progress entered Replicate state without an acknowledgement from the follower",
                format!("leader {}: follower {} switched to Replicate state in a call that is not its own successful append response", id, pid),
            );
        }
        for pid in left_snapshot {
            ctx.v(
                "C13",
                "progress left Snapshot state although the snapshot is still outstanding",
                format!(
                    "leader {}: follower {} left Snapshot state in {} (neither its answer nor a snapshot status report)",
                    id,
                    pid,
                    match kind {
                        CallKind::Step(m) => format!("step({:?} from {})", m.get_msg_type(), m.from),
                        CallKind::Unreachable(to) => format!("report_unreachable({})", to),
                        CallKind::Tick => "tick".to_string(),
                        _ => "another call".to_string(),
                    }
                ),
            );
        }
        if let CallKind::Unreachable(_) | CallKind::ReportSnap(..) = kind {
            // become_probe from Probe keeps the state but starts a new probe round
        }

        // (2) every generated / edited message
        for (m, is_new) in fresh {
            match m.get_msg_type() {
                MessageType::MsgAppend => {
                    ctx.stat(Stat::AppendsChecked);
                    self.c13_append_wellformed(i, m, post, ctx);
                    if !*is_new || m.entries.is_empty() {
                        continue;
                    }
                    let st = post_prs.iter().find(|p| p.0 == m.to).map(|p| p.1);
                    let l = self.nodes[i].live.as_mut().unwrap();
                    let Some(f) = l.flow.get_mut(&m.to) else { continue };
                    match st {
                        Some(ProgressState::Replicate) => {
                            if f.window.is_empty() {
                                // a reduced capacity is in force once the window drained
                            }
                            if f.window.len() >= f.bound {
                                ctx.v(
                                    "C13",
                                    "more than max_inflight_msgs unacknowledged appends",
                                    format!(
                                        "leader {} -> {}: window {:?} is at capacity {} but another entry-carrying append (last index {}) was generated",
                                        id, m.to, f.window, f.bound, m.entries.last().unwrap().index
                                    ),
                                );
                            }
                            f.window.push_back(m.entries.last().unwrap().index);
                            if f.window.len() >= f.bound {
                                ctx.stat(Stat::WindowFull);
                            }
                        }
                        Some(ProgressState::Probe) => {
                            if f.probe_out {
                                ctx.v(
                                    "C13",
                                    "second entry-carrying append while probing",
                                    format!(
                                        "leader {} -> {}: an entry-carrying append is already outstanding in Probe state and another one (prev {}, {} entries) was generated",
                                        id, m.to, m.index, m.entries.len()
                                    ),
                                );
                            }
                            f.probe_out = true;
                            ctx.stat(Stat::ProbePaused);
                        }
                        Some(ProgressState::Snapshot) => {
                            ctx.v(
                                "C13",
                                "append while a snapshot is outstanding",
                                format!("leader {} -> {}: MsgAppend generated in Snapshot state", id, m.to),
                            );
                        }
                        None => {}
                    }
                }
                MessageType::MsgHeartbeat => {
                    ctx.stat(Stat::HeartbeatsChecked);
                    let matched = post_prs.iter().find(|p| p.0 == m.to).map(|p| p.2).unwrap_or(0);
                    let acked = self.live(i).unwrap().flow.get(&m.to).map(|f| f.acked).unwrap_or(0);
                    if m.commit > acked {
                        ctx.v(
                            "C13",
                            "heartbeat advertises commit beyond what the follower acknowledged",
                            format!(
                                "leader {} -> {}: heartbeat commit {} but the follower acknowledged only up to {} in this term (leader's matched {})",
                                id, m.to, m.commit, acked, matched
                            ),
                        );
                    }
                    if m.commit > post.committed || m.commit > matched {
                        ctx.v(
                            "C13",
                            "heartbeat advertises commit beyond matched/committed",
                            format!(
                                "leader {} -> {}: heartbeat commit {} but committed {} and matched {}",
                                id, m.to, m.commit, post.committed, matched
                            ),
                        );
                    }
                }
                MessageType::MsgSnapshot => {
                    ctx.stat(Stat::SnapshotsSent);
                }
                _ => {}
            }
        }
        // window drained => the latest requested capacity is the bound
        let l = self.nodes[i].live.as_mut().unwrap();
        for (_, f) in l.flow.iter_mut() {
            if f.window.is_empty() {
                // bound is reset in SetCap handling (see apply_setcap)
            }
        }
    }

    pub fn note_setcap(&mut self, i: usize, to: u64, v: usize) {
        let default_cap = self.cfg(i).max_inflight;
        let l = self.nodes[i].live.as_mut().unwrap();
        let f = l.flow.entry(to).or_insert_with(|| FlowGhost {
            window: Default::default(),
            bound: default_cap,
            probe_out: false,
            acked: 0,
        });
        if f.window.is_empty() {
            f.bound = v;
        } else {
            f.bound = f.bound.max(v);
        }
    }

    fn c13_append_wellformed(&mut self, i: usize, m: &Message, post: &Snap, ctx: &mut Ctx) {
        let id = i as u64 + 1;
        let cfg = self.cfg(i);
        // an append generated or edited now speaks for the current leadership: it carries the
        // leader's current term (batch_append edits queued messages in place)
        if m.term != post.term && post.role == StateRole::Leader {
            ctx.v(
                "C13",
                "append generated under an older term stamp",
                format!(
                    "leader {} (term {}) -> {}: MsgAppend stamped term {} was generated or extended now ({} entries, last entry term {:?})",
                    id, post.term, m.to, m.term, m.entries.len(), m.entries.last().map(|e| e.term)
                ),
            );
        }
        // anchor
        let anchor_term = if m.index == post.first - 1 {
            Some(post.base_term)
        } else {
            post.at(m.index).map(|x| x.0)
        };
        if anchor_term != Some(m.log_term) {
            ctx.v(
                "C13",
                "append anchored at an (index, term) not in the leader's log",
                format!(
                    "leader {} -> {}: MsgAppend prev ({}, term {}) but leader has term {:?} there",
                    id, m.to, m.index, m.log_term, anchor_term
                ),
            );
        }
        let mut expect = m.index + 1;
        for e in m.entries.iter() {
            if e.index != expect {
                ctx.v(
                    "C13",
                    "append entries not contiguous from its anchor",
                    format!(
                        "leader {} -> {}: MsgAppend prev {} carries entry index {} where {} was expected",
                        id, m.to, m.index, e.index, expect
                    ),
                );
                break;
            }
            expect += 1;
            match post.at(e.index) {
                Some((t, d, _)) if t == e.term && d == edig(e) => {}
                other => {
                    ctx.v(
                        "C13",
                        "append carries an entry that is not in the leader's log",
                        format!(
                            "leader {} -> {}: entry ({}, term {}) but leader's log has {:?}",
                            id, m.to, e.index, e.term, other.map(|x| x.0)
                        ),
                    );
                    break;
                }
            }
        }
        if m.commit > post.committed {
            ctx.v(
                "C13",
                "append advertises commit beyond the leader's commit index",
                format!("leader {} -> {}: commit {} > {}", id, m.to, m.commit, post.committed),
            );
        }
        if !cfg.batch_append && m.entries.len() > 1 && cfg.max_size_per_msg != raft::NO_LIMIT {
            use protobuf::Message as _;
            let sz: u64 = m.entries.iter().map(|e| e.compute_size() as u64).sum();
            if sz > cfg.max_size_per_msg {
                ctx.v(
                    "C13",
                    "append exceeds max_size_per_msg",
                    format!(
                        "leader {} -> {}: {} entries of {} bytes > limit {}",
                        id, m.to, m.entries.len(), sz, cfg.max_size_per_msg
                    ),
                );
            }
        }
    }

    // ------------------------------------------------------------------ proposals: C09(a), C13 (uncommitted bytes), C17

    fn check_proposal(&mut self, i: usize, kind: &CallKind, pre: &Snap, post: &Snap, ctx: &mut Ctx) {
        let id = i as u64 + 1;
        let (is_cc, size) = match kind {
            CallKind::Propose(sz) => (false, *sz),
            CallKind::ProposeCc => (true, 0),
            // a proposal forwarded by a follower
            CallKind::Step(m) if m.get_msg_type() == MessageType::MsgPropose => (
                m.entries.iter().any(|e| e.get_entry_type() != EntryType::EntryNormal),
                m.entries.iter().map(|e| e.data.len()).sum::<usize>(),
            ),
            _ => return,
        };
        if pre.role != StateRole::Leader {
            return;
        }
        let accepted = post.last > pre.last;
        // C17: a pending transfer refuses proposals
        if pre.transferee.is_some() && accepted {
            ctx.v(
                "C17",
                "proposal accepted while a leadership transfer is pending",
                format!("leader {} accepted a proposal with transferee {:?}", id, pre.transferee),
            );
        }
        let in_conf = self.live(i).unwrap().rn.raft.prs().get(id).is_some();
        let max_u = self.cfg(i).max_uncommitted_size;
        if accepted {
            ctx.stat(Stat::ProposalsAccepted);
        } else {
            ctx.stat(Stat::ProposalsRefused);
        }
        // ---- C13 uncommitted bytes (normal proposals only; conf entries carry their own payload)
        let new_entry: Option<Entry> = if accepted {
            rl_entry(&self.live(i).unwrap().rn, pre.last + 1).cloned()
        } else {
            None
        };
        // payload of everything this proposal appended (one entry, or [normal, conf change])
        let payload = if accepted {
            let rn = &self.live(i).unwrap().rn;
            (pre.last + 1..=post.last)
                .filter_map(|k| rl_entry(rn, k))
                .map(|e| e.data.len() as u64)
                .sum::<u64>()
        } else {
            size as u64
        };
        let u_pre = self.live(i).unwrap().u_bytes;
        if accepted {
            let u_post = u_pre + payload;
            if max_u != raft::NO_LIMIT && !(u_post <= max_u || u_pre == 0 || payload == 0) {
                ctx.v(
                    "C13",
                    "uncommitted payload exceeds max_uncommitted_size",
                    format!(
                        "leader {} accepted {} bytes with {} outstanding (limit {})",
                        id, payload, u_pre, max_u
                    ),
                );
            }
            self.nodes[i].live.as_mut().unwrap().u_bytes = u_post;
        } else if !is_cc && pre.transferee.is_none() && in_conf && (size == 0 || u_pre == 0) {
            ctx.v(
                "C13",
                "proposal refused although nothing is outstanding or payload is empty",
                format!(
                    "leader {} refused a {}-byte proposal with {} bytes outstanding (limit {})",
                    id, size, u_pre, max_u
                ),
            );
        }
        // ---- C09(a)
        if is_cc && accepted {
            let new_ents: Vec<Entry> = {
                let rn = &self.live(i).unwrap().rn;
                (pre.last + 1..=post.last).filter_map(|k| rl_entry(rn, k).cloned()).collect()
            };
            for e in &new_ents {
                let neutral = e.get_entry_type() == EntryType::EntryNormal && e.data.is_empty();
                if neutral {
                    ctx.stat(Stat::CcNeutralised);
                    continue;
                }
                let Some(cc) = decode_cc(e) else { continue };
                ctx.stat(Stat::CcAccepted);
                // a membership entry between applied and this one (in the old log or earlier in
                // the same proposal) makes this one a second pending change
                let pending = (pre.applied + 1..e.index).any(|k| post.at(k).map(|x| is_conf(x.2)).unwrap_or(false));
                let changes_empty = cc.changes.is_empty();
                // classified by what apply_conf_change will do with the entry: only an empty
                // change list with transition Auto leaves a joint configuration; an empty list
                // with an explicit or implicit transition asks to *enter* one
                let leaves = cc.leave_joint();
                let must_neutralise = pending || (pre.joint && !leaves) || (!pre.joint && leaves);
                if must_neutralise {
                    ctx.v(
                        "C09",
                        "conflicting membership change accepted",
                        format!(
                            "leader {} accepted conf change at index {} (pending={}, joint={}, empty={})",
                            id, e.index, pending, pre.joint, changes_empty
                        ),
                    );
                }
            }
            // own-term conf entries beyond applied: at most one
            let cnt = (post.applied + 1..=post.last)
                .filter(|k| post.at(*k).map(|x| is_conf(x.2) && x.0 == post.term).unwrap_or(false))
                .count();
            if cnt > 1 {
                ctx.v(
                    "C09",
                    "more than one own-term membership change beyond applied",
                    format!("leader {} holds {} own-term conf entries in ({}, {}]", id, cnt, post.applied, post.last),
                );
            }
        }
    }

    /// Called by the scenario executor for a conf-change proposal to compare the appended
    /// entry byte-for-byte with what was proposed (C09a: not neutralised => identical).
    pub fn check_cc_identical(&mut self, i: usize, idx: u64, ty: EntryType, data: &[u8], ctx: &mut Ctx) {
        if let Some(e) = rl_entry(&self.live(i).unwrap().rn, idx) {
            let neutral = e.get_entry_type() == EntryType::EntryNormal && e.data.is_empty();
            if !neutral && (e.get_entry_type() != ty || &e.data[..] != data) {
                ctx.v(
                    "C09",
                    "accepted membership change differs from the proposal",
                    format!("node {} index {}: stored {:?}/{} bytes, proposed {:?}/{} bytes", i + 1, idx, e.get_entry_type(), e.data.len(), ty, data.len()),
                );
            }
        }
    }

    // ------------------------------------------------------------------ C09(b)

    fn c09_election(&mut self, i: usize, kind: &CallKind, pre: &Snap, post: &Snap, ctx: &mut Ctx) {
        let id = i as u64 + 1;
        let by = match kind {
            CallKind::Tick => 0,
            CallKind::Campaign => 1,
            CallKind::Step(m) if m.get_msg_type() == MessageType::MsgTimeoutNow => 2,
            _ => return,
        };
        let l = self.live(i).unwrap();
        let new_vote_msgs = l.rn.raft.msgs.iter().skip(pre.msgs_len).any(|m| {
            matches!(
                m.get_msg_type(),
                MessageType::MsgRequestVote | MessageType::MsgRequestPreVote
            )
        });
        let cand = |r: StateRole| r == StateRole::Candidate || r == StateRole::PreCandidate;
        let started = (cand(post.role) && (pre.role != post.role || post.term != pre.term || new_vote_msgs))
            || (pre.role != StateRole::Leader && post.role == StateRole::Leader);
        if !started {
            return;
        }
        ctx.stat(Stat::ElectionsStarted);
        let lo = pre.applied.max(pre.pending_snap.map(|x| x.0).unwrap_or(0)) + 1;
        for k in lo..=pre.committed {
            if pre.at(k).map(|x| is_conf(x.2)).unwrap_or(false) {
                ctx.v(
                    "C09",
                    "election started over an unapplied committed membership change",
                    format!(
                        "node {} started an election (applied {}, committed {}) with a conf entry at {}",
                        id, pre.applied, pre.committed, k
                    ),
                );
                break;
            }
        }
        if !pre.is_voter {
            ctx.v(
                "C09",
                "non-voter started an election",
                format!("node {} is not a voter of its configuration but campaigned ({})", id, match by { 0 => "timeout", 1 => "campaign()", _ => "MsgTimeoutNow" }),
            );
        }
    }

    // ------------------------------------------------------------------ C16(b)

    fn c16_prevote_tally(&mut self, i: usize, kind: &CallKind, pre: &Snap, post: &Snap, ctx: &mut Ctx) {
        let id = i as u64 + 1;
        if !self.live(i).map(|l| l.rn.raft.pre_vote).unwrap_or(false) {
            return;
        }
        // maintain the monitor's own tally of granted pre-votes
        let started_pre = post.role == StateRole::PreCandidate
            && matches!(kind, CallKind::Tick | CallKind::Campaign)
            && (pre.role != StateRole::PreCandidate || {
                let l = self.live(i).unwrap();
                l.rn.raft.msgs.len() > pre.msgs_len
            });
        if started_pre {
            if !self.scen.lock_majority.is_empty() {
                // (ghost rounds are kept only where the lease monitor can use them)
                self.nodes[i].g.pre_round += 1;
            }
            let l = self.nodes[i].live.as_mut().unwrap();
            l.prevote_grants = vec![id];
            l.prevote_term = post.term + 1;
        }
        let mut won = false;
        if let CallKind::Step(m) = kind {
            if m.get_msg_type() == MessageType::MsgRequestPreVoteResponse
                && !m.reject
                && pre.role == StateRole::PreCandidate
                && m.term == self.live(i).unwrap().prevote_term
            {
                // a grant released during an earlier pre-campaign of this node (ghost rounds)
                if let Some(pos) = self.ghost.pre_grants.iter().position(|g| g.0 == m.from && g.1 == id && g.2 == m.term) {
                    let g = self.ghost.pre_grants.remove(pos);
                    if g.3 < self.nodes[i].g.pre_round {
                        self.ghost.stale_grant_terms.insert(m.term);
                    }
                }
                let conf = self.my_conf_pre(i, pre);
                let l = self.nodes[i].live.as_mut().unwrap();
                if !l.prevote_grants.contains(&m.from) {
                    l.prevote_grants.push(m.from);
                }
                let set: BTreeSet<u64> = l.prevote_grants.iter().cloned().collect();
                won = conf.is_quorum(&set);
            }
        }
        if post.term > pre.term {
            let ok = match kind {
                CallKind::Tick | CallKind::Campaign => pre.singleton,
                CallKind::Step(m) => {
                    let t = m.get_msg_type();
                    if t == MessageType::MsgTimeoutNow {
                        true
                    } else if t == MessageType::MsgRequestPreVoteResponse && !m.reject {
                        won
                    } else if t == MessageType::MsgRequestPreVote {
                        false
                    } else {
                        m.term > pre.term && post.term == m.term
                    }
                }
                CallKind::New => true,
                _ => false,
            };
            if !ok {
                ctx.v(
                    "C16",
                    "term raised without a pre-vote quorum or a higher peer term",
                    format!(
                        "node {} (pre_vote on) raised term {} -> {} in {}",
                        id,
                        pre.term,
                        post.term,
                        match kind {
                            CallKind::Tick => "tick".to_string(),
                            CallKind::Campaign => "campaign".to_string(),
                            CallKind::Step(m) => format!("step({:?} from {} term {} reject {})", m.get_msg_type(), m.from, m.term, m.reject),
                            _ => "other".to_string(),
                        }
                    ),
                );
            }
        }
        if post.role != StateRole::PreCandidate && !started_pre {
            let l = self.nodes[i].live.as_mut().unwrap();
            if !l.prevote_grants.is_empty() {
                l.prevote_grants.clear();
                l.prevote_term = 0;
            }
        }
    }

    /// configuration before the call: conf only changes in ApplyConf / snapshot restore, so the
    /// current one is the pre one for every other call kind
    fn my_conf_pre(&self, i: usize, _pre: &Snap) -> RefConf {
        self.my_conf(i)
    }

    // ------------------------------------------------------------------ C17

    fn c17_transfer(&mut self, i: usize, kind: &CallKind, pre: &Snap, post: &Snap, ctx: &mut Ctx) {
        let id = i as u64 + 1;
        // a follower relays a transfer request unchanged: to its leader, naming the same target
        if let CallKind::Transfer(t) = kind {
            if pre.role == StateRole::Follower && post.role == StateRole::Follower {
                let l = self.live(i).unwrap();
                let fresh: Vec<&Message> = l.rn.raft.msgs.iter().skip(pre.msgs_len.min(l.rn.raft.msgs.len())).collect();
                let ok = if pre.lead == 0 || *t == 0 {
                    // no leader known, or the request names no node (id 0): nothing to relay
                    fresh.is_empty()
                } else {
                    fresh.len() == 1
                        && fresh[0].get_msg_type() == MessageType::MsgTransferLeader
                        && fresh[0].to == pre.lead
                        && fresh[0].from == *t
                };
                if !ok {
                    ctx.v(
                        "C17",
                        "follower did not relay the transfer request unchanged to its leader",
                        format!(
                            "follower {} (leader {}), request naming {}: generated {:?}",
                            id,
                            pre.lead,
                            t,
                            fresh.iter().map(|m| (m.get_msg_type(), m.to, m.from)).collect::<Vec<_>>()
                        ),
                    );
                }
            }
        }
        // a leader that steps a (relayed) transfer request ends up transferring to the node the
        // request names, to nobody, or keeps what it was doing
        if let CallKind::Step(m) = kind {
            if m.get_msg_type() == MessageType::MsgTransferLeader
                && pre.role == StateRole::Leader
                && post.role == StateRole::Leader
                && post.transferee != pre.transferee
                && post.transferee.is_some()
                && post.transferee != Some(m.from)
            {
                ctx.v(
                    "C17",
                    "leader started a transfer to a node the request does not name",
                    format!("leader {}: request names {}, transferee {:?} -> {:?}", id, m.from, pre.transferee, post.transferee),
                );
            }
        }
        if post.role != StateRole::Leader {
            return;
        }
        let et = self.cfg(i).election_tick as u32;
        if post.transferee != pre.transferee {
            let l = self.nodes[i].live.as_mut().unwrap();
            l.xfer = post.transferee.map(|t| (t, 0));
            if post.transferee.is_some() {
                ctx.stat(Stat::TransfersStarted);
            }
        }
        if let (Some(t), Some((_, ticks))) = (post.transferee, self.live(i).unwrap().xfer) {
            if matches!(kind, CallKind::Tick) && ticks >= et {
                ctx.v(
                    "C17",
                    "transfer not abandoned after an election timeout",
                    format!("leader {} still transferring to {} after {} ticks", id, t, ticks),
                );
            }
            let conf = self.my_conf(i);
            if !conf.is_voter(t) {
                ctx.v(
                    "C17",
                    "transfer pending to a node that is not a voter",
                    format!("leader {} has transferee {} which is not a voter of {:?}", id, t, conf),
                );
            }
        }
        if let CallKind::Transfer(t) = kind {
            if pre.role == StateRole::Leader {
                let conf = self.my_conf(i);
                let unknown = !conf.members().contains(t);
                let learner = conf.learners.contains(t) && !conf.is_voter(*t);
                if unknown || learner {
                    let changed = post.transferee != pre.transferee
                        || post.last != pre.last
                        || self.live(i).unwrap().rn.raft.msgs.len() != pre.msgs_len;
                    if changed {
                        ctx.v(
                            "C17",
                            "transfer request naming a learner or unknown node was not ignored",
                            format!("leader {}: target {} transferee {:?} -> {:?}", id, t, pre.transferee, post.transferee),
                        );
                    }
                } else if *t == id {
                    if post.transferee.is_some() || post.last != pre.last || self.live(i).unwrap().rn.raft.msgs.len() != pre.msgs_len {
                        ctx.v(
                            "C17",
                            "transfer request naming the leader did more than cancel",
                            format!("leader {}: transferee {:?} -> {:?}", id, pre.transferee, post.transferee),
                        );
                    }
                }
            }
        }
    }

    // ------------------------------------------------------------------ C15

    fn c15_snapshot(&mut self, i: usize, kind: &CallKind, pre: &Snap, post: &Snap, pre_flow: &[PrPre], ctx: &mut Ctx) {
        let id = i as u64 + 1;
        match kind {
            CallKind::Step(m) if m.get_msg_type() == MessageType::MsgSnapshot => {
                if post.term != m.term || m.term < pre.term {
                    return; // stale message, ignored by the term check
                }
                let meta = m.get_snapshot().get_metadata();
                let (si, st) = (meta.index, meta.term);
                let installed = post.pending_snap == Some((si, st)) && pre.pending_snap != Some((si, st));
                let cs = meta.get_conf_state();
                let member = cs
                    .get_voters()
                    .iter()
                    .chain(cs.get_learners())
                    .chain(cs.get_voters_outgoing())
                    .chain(cs.get_learners_next())
                    .any(|x| *x == id);
                if installed {
                    ctx.stat(Stat::SnapshotsInstalled);
                    if si < pre.committed {
                        ctx.v("C15", "installed a snapshot behind the commit index", format!("node {} commit {} installed snapshot {}", id, pre.committed, si));
                    }
                    if !member {
                        ctx.v("C15", "installed a snapshot that does not list the node", format!("node {} not in {:?}", id, cs));
                    }
                    if post.committed != si || post.last != si || post.base_term != st || post.first != si + 1 {
                        ctx.v(
                            "C15",
                            "log boundary after snapshot install is wrong",
                            format!("node {} snapshot ({}, {}): commit {} last {} first {} base term {}", id, si, st, post.committed, post.last, post.first, post.base_term),
                        );
                    }
                    let conf = self.my_conf(i);
                    if conf != RefConf::from_cs(cs) {
                        ctx.v("C15", "configuration after snapshot install differs from the snapshot", format!("node {}: {:?} vs {:?}", id, conf, cs));
                    }
                    // C09: the configuration received by snapshot is the fold of the membership
                    // entries up to the snapshot index (where the reference knows that fold)
                    if let Some((_, want)) = self.ghost.conf_at.range(..=si).next_back() {
                        let want = RefConf::from_cs(want);
                        if want != conf {
                            ctx.v(
                                "C09",
                                "configuration after a snapshot is not the fold of the membership entries up to its index",
                                format!("node {} snapshot index {}: has {:?}, reference {:?}", id, si, conf, want),
                            );
                        }
                    }
                    self.c01_report_term(i, si, st, "snapshot install", ctx);
                } else {
                    let matched = (si == pre.first - 1 && pre.base_known && st == pre.base_term) || pre.at(si).map(|x| x.0) == Some(st);
                    if matched && pre.pending_request_snapshot == 0 && member && si >= pre.committed && pre.role == StateRole::Follower {
                        ctx.stat(Stat::SnapshotFastForward);
                        if post.first != pre.first || post.last != pre.last || post.log != pre.log {
                            ctx.v("C15", "matching snapshot discarded log entries", format!("node {} snapshot ({}, {}) log {:?} -> {:?}", id, si, st, pre.log.len(), post.log.len()));
                        }
                        if post.committed != pre.committed.max(si) {
                            ctx.v("C15", "matching snapshot did not fast-forward the commit index", format!("node {} commit {} -> {} for snapshot {}", id, pre.committed, post.committed, si));
                        }
                    } else {
                        ctx.stat(Stat::SnapshotIgnored);
                        if post.first != pre.first || post.last != pre.last || post.committed != pre.committed {
                            ctx.v("C15", "ignored snapshot changed the log", format!("node {} snapshot ({}, {})", id, si, st));
                        }
                    }
                }
            }
            CallKind::ReportSnap(to, ok) => {
                if pre.role != StateRole::Leader || post.role != StateRole::Leader {
                    return;
                }
                let Some(p) = pre_flow.iter().find(|p| p.id == *to) else { return };
                if p.state != ProgressState::Snapshot {
                    return;
                }
                let l = self.live(i).unwrap();
                let Some(np) = l.rn.raft.prs().get(*to) else { return };
                if np.state != ProgressState::Probe {
                    ctx.v("C15", "snapshot report did not resume probing", format!("leader {} -> {}: state {:?}", id, to, np.state));
                }
                if *ok && np.next_idx < p.pending_snapshot + 1 {
                    ctx.v(
                        "C15",
                        "replication resumes before the snapshot index",
                        format!("leader {} -> {}: next_idx {} after snapshot {} reported done", id, to, np.next_idx, p.pending_snapshot),
                    );
                }
                if *ok {
                    if let Some(sent) = l.snap_idx.get(to) {
                        if np.next_idx < *sent + 1 {
                            ctx.v(
                                "C15",
                                "replication resumes before the index of the snapshot that was sent",
                                format!("leader {} -> {}: next_idx {} after the snapshot at index {} was reported done", id, to, np.next_idx, sent),
                            );
                        }
                    }
                }
                if np.matched != p.matched {
                    ctx.v(
                        "C15",
                        "snapshot status report changed the follower's acknowledged index",
                        format!("leader {} -> {}: matched {} -> {} on report_snapshot({})", id, to, p.matched, np.matched, ok),
                    );
                }
                if np.next_idx < np.matched + 1 {
                    ctx.v("C15", "next index behind matched after snapshot report", format!("leader {} -> {}: next {} matched {}", id, to, np.next_idx, np.matched));
                }
            }
            _ => {}
        }
        // send condition: a MsgSnapshot generated in this call
        if post.role == StateRole::Leader && !matches!(kind, CallKind::Ready | CallKind::Advance) {
            let l = self.live(i).unwrap();
            let fresh: Vec<Message> = l.rn.raft.msgs.iter().skip(pre.msgs_len.min(l.rn.raft.msgs.len())).filter(|m| m.get_msg_type() == MessageType::MsgSnapshot).cloned().collect();
            for m in fresh {
                let p = l.rn.raft.prs().get(m.to);
                let asked_now = matches!(kind, CallKind::Step(r) if r.from == m.to && r.request_snapshot != 0);
                let asked_before = pre_flow.iter().find(|p| p.id == m.to).map(|p| p.pending_request_snapshot != 0).unwrap_or(false);
                let next = p.map(|p| p.next_idx).unwrap_or(0);
                // the entry before next must be known too (MemStorage-style compaction forgets it)
                let unavailable = next < post.first || next == 0 || (next == post.first && !post.base_known);
                if !(asked_now || asked_before || unavailable) {
                    ctx.v(
                        "C15",
                        "snapshot sent although the follower's entries are available and it did not ask",
                        format!("leader {} -> {}: next_idx {} first_index {}", id, m.to, next, post.first),
                    );
                }
                let si = m.get_snapshot().get_metadata().index;
                if si > post.committed {
                    ctx.v("C15", "snapshot beyond the commit index sent", format!("leader {} -> {}: snapshot {} commit {}", id, m.to, si, post.committed));
                }
            }
        }
    }

    /// The application writes an installed snapshot: state must equal the log prefix.
    pub fn on_snapshot_installed(&mut self, i: usize, s: &Snapshot, ctx: &mut Ctx) {
        let m = s.get_metadata();
        let id = i as u64 + 1;
        // C06: installing a snapshot must not put the log behind an acknowledgement the node
        // released to the leader of its current term (the entry is still the leader's: same
        // term, and entries of one leader never conflict)
        {
            let cur_term = self.live(i).unwrap().rn.raft.term;
            let lost = self.nodes[i]
                .g
                .acked
                .iter()
                .find(|(mt, idx, et)| *mt == cur_term && *idx > m.index && *et == cur_term)
                .cloned();
            if let Some((mt, idx, et)) = lost {
                ctx.v(
                    "C15",
                    "snapshot install discards entries the node acknowledged to the current leader",
                    format!(
                        "node {} (term {}) installs a snapshot at index {} although it acknowledged index {} (entry term {}) to the leader of term {}",
                        id, cur_term, m.index, idx, et, mt
                    ),
                );
                ctx.v(
                    "C06",
                    "snapshot install discards entries the node acknowledged to the current leader",
                    format!(
                        "node {} (term {}) installs a snapshot at index {} although it acknowledged index {} (entry term {}) to the leader of term {}",
                        id, cur_term, m.index, idx, et, mt
                    ),
                );
            }
        }
        if let Some(Some(f)) = self.ghost.cl_fold.get(m.index as usize) {
            let mut b = [0u8; 8];
            if s.data.len() == 8 {
                b.copy_from_slice(&s.data);
            }
            if u64::from_le_bytes(b) != *f {
                ctx.v(
                    "C01",
                    "snapshot state differs from the committed log prefix",
                    format!("node {} installs snapshot at {} whose state digest differs from the fold of the committed entries", id, m.index),
                );
            }
        }
        if let Some((_, cs)) = self.ghost.conf_at.range(..=m.index).next_back() {
            if RefConf::from_cs(cs) != RefConf::from_cs(m.get_conf_state()) {
                ctx.v(
                    "C09",
                    "snapshot configuration differs from the applied log's configuration",
                    format!("node {} snapshot at {}: {:?} vs reference {:?}", id, m.index, m.get_conf_state(), cs),
                );
            }
        }
        // when the application writes the snapshot the node's active configuration is the
        // snapshot's: Raft::restore switched to it when the message was stepped, and nothing the
        // application legally did since (finishing older handed-out entries) may have changed it
        {
            let l = self.live(i).unwrap();
            let mine = RefConf::from_cs(&l.rn.raft.prs().conf().to_conf_state());
            let snap = RefConf::from_cs(m.get_conf_state());
            if mine != snap {
                ctx.v(
                    "C09",
                    "configuration at snapshot install is not the snapshot's",
                    format!("node {} installs the snapshot at {} with configuration {:?}, its tracker has {:?}", id, m.index, snap, mine),
                );
            }
        }
        let l = self.nodes[i].live.as_mut().unwrap();
        l.to_apply.clear();
    }

    // ------------------------------------------------------------------ C09(c)

    pub fn check_conf_after_apply(&mut self, i: usize, e: &Entry, ctx: &mut Ctx) {
        let id = i as u64 + 1;
        if let Some(cc) = decode_cc(e) {
            if !self.ghost.conf_at.contains_key(&e.index) {
                let (_, base) = self.ghost.conf_at.range(..e.index).next_back().unwrap();
                let base = RefConf::from_cs(base);
                let next = base.apply_v2(&cc).unwrap_or(base.clone());
                if next.joint() && !base.joint() {
                    ctx.stat(Stat::JointEntered);
                }
                self.ghost.conf_at.insert(e.index, next.to_cs());
            }
        }
        let (_, want) = self.ghost.conf_at.range(..=e.index).next_back().unwrap();
        let want = RefConf::from_cs(want);
        let have = self.my_conf(i);
        if want != have {
            ctx.v(
                "C09",
                "configuration is not the fold of the applied membership entries",
                format!("node {} applied {}: has {:?}, reference {:?}", id, e.index, have, want),
            );
        }
        let stored = RefConf::from_cs(&self.live(i).unwrap().rn.store().app.conf);
        let _ = stored;
    }

    // ------------------------------------------------------------------ C06 release monitor

    pub fn on_release(&mut self, i: usize, m: &Message, ctx: &mut Ctx) {
        ctx.stat(Stat::MsgsReleased);
        let id = i as u64 + 1;
        let disk = &self.nodes[i].disk;
        let t = m.get_msg_type();
        let carries_own_term = !(t == MessageType::MsgRequestPreVote
            || (t == MessageType::MsgRequestPreVoteResponse && !m.reject)
            || m.term == 0);
        if carries_own_term && disk.hs.term < m.term {
            ctx.v(
                "C06",
                format!("{:?} released before its term was durable", t),
                format!(
                    "node {} released {:?} to {} at term {} while its durable term is {}",
                    id, t, m.to, m.term, disk.hs.term
                ),
            );
        }
        if !self.scen.lock_majority.is_empty() && t == MessageType::MsgRequestPreVoteResponse && !m.reject && (m.to as usize) <= self.nodes.len() && m.to > 0 {
            let round = self.nodes[m.to as usize - 1].g.pre_round;
            self.ghost.pre_grants.push((id, m.to, m.term, round));
        }
        match t {
            MessageType::MsgRequestVoteResponse if !m.reject => {
                let ok = disk.hs.term > m.term || (disk.hs.term == m.term && disk.hs.vote == m.to);
                if !ok {
                    ctx.v(
                        "C06",
                        "vote grant released before the vote was durable",
                        format!(
                            "node {} released a vote grant to {} for term {} while durable (term {}, vote {})",
                            id, m.to, m.term, disk.hs.term, disk.hs.vote
                        ),
                    );
                }
                let g = &mut self.nodes[i].g;
                if let Some((_, c)) = g.votes.iter().find(|(vt, _)| *vt == m.term) {
                    if *c != m.to {
                        ctx.v(
                            "C06",
                            "two different candidates granted in one term",
                            format!("node {} granted term {} to {} and to {}", id, m.term, c, m.to),
                        );
                    }
                } else {
                    g.votes.push((m.term, m.to));
                }
            }
            MessageType::MsgRequestVote => {
                let ok = disk.hs.term > m.term || (disk.hs.term == m.term && disk.hs.vote == id);
                if !ok {
                    ctx.v(
                        "C06",
                        "vote request released before the self-vote was durable",
                        format!(
                            "node {} released MsgRequestVote for term {} while durable (term {}, vote {})",
                            id, m.term, disk.hs.term, disk.hs.vote
                        ),
                    );
                }
                let g = &mut self.nodes[i].g;
                if let Some((_, c)) = g.votes.iter().find(|(vt, _)| *vt == m.term) {
                    if *c != id {
                        ctx.v(
                            "C06",
                            "two different candidates granted in one term",
                            format!("node {} granted term {} to {} and campaigns itself", id, m.term, c),
                        );
                    }
                } else {
                    g.votes.push((m.term, id));
                }
            }
            MessageType::MsgAppendResponse if !m.reject => {
                ctx.stat(Stat::AcksReleased);
                let idx = m.index;
                // the acknowledged position must be durable with the term the node had for it
                // when the acknowledgement was generated
                let vis_term = {
                    let l = self.nodes[i].live.as_mut().unwrap();
                    match l.ack_terms.iter().position(|(mt, ix, _)| *mt == m.term && *ix == idx) {
                        Some(p) => Some(l.ack_terms.remove(p).2),
                        None => l.rn.raft.raft_log.term(idx).ok(),
                    }
                };
                if let Some(et) = vis_term {
                    let g = &mut self.nodes[i].g;
                    match g.acked.iter_mut().find(|(mt, _, _)| *mt == m.term) {
                        Some(rec) => {
                            if idx > rec.1 {
                                *rec = (m.term, idx, et);
                            }
                        }
                        None => g.acked.push((m.term, idx, et)),
                    }
                }
                let disk = &self.nodes[i].disk;
                let covered = disk.snap_index >= idx || (disk.last() >= idx && (vis_term.is_none() || disk.term_of(idx) == vis_term));
                let cur_term = self.nodes[i].live.as_ref().unwrap().rn.raft.term;
                if !covered && m.term < cur_term {
                    ctx.v(
                        "C06",
                        "superseded append acknowledgement (older term) released after its entry was overwritten",
                        format!(
                            "node {} (now term {}) released to {} an acknowledgement of index {} generated in term {} for an entry of term {:?} that was replaced before it was ever persisted",
                            id, cur_term, m.to, idx, m.term, vis_term
                        ),
                    );
                } else if !covered {
                    ctx.v(
                        "C06",
                        "append acknowledgement released before the entries were durable",
                        format!(
                            "node {} acknowledged index {} to {} while its durable log ends at {} (snapshot {})",
                            id, idx, m.to, disk.last(), disk.snap_index
                        ),
                    );
                }
            }
            _ => {}
        }
        if carries_own_term && m.term > self.nodes[i].g.max_term_told {
            self.nodes[i].g.max_term_told = m.term;
        }
        if t == MessageType::MsgSnapshot {
            let l = self.nodes[i].live.as_mut().unwrap();
            if !l.snap_out.contains(&m.to) {
                l.snap_out.push(m.to);
            }
            l.snap_idx.insert(m.to, m.get_snapshot().get_metadata().index);
        }
    }

    // ------------------------------------------------------------------ C07 / C08 at Ready

    pub fn check_ready(&mut self, i: usize, rd: &Ready, ctx: &mut Ctx) {
        ctx.stat(Stat::ReadyChecked);
        let id = i as u64 + 1;
        let l = self.live(i).unwrap();
        let cur_hs = l.rn.raft.hard_state();
        // non-empty
        let empty = rd.ss().is_none()
            && rd.hs().is_none()
            && rd.read_states().is_empty()
            && rd.entries().is_empty()
            && rd.snapshot().is_empty()
            && rd.committed_entries().is_empty()
            && rd.messages().is_empty()
            && rd.persisted_messages().is_empty();
        if empty {
            ctx.v("C07", "has_ready() was true but ready() is empty", format!("node {}", id));
        }
        // hard state: Some iff different from the last handed out, and equal to the current one
        let differs = cur_hs != l.last_hs;
        match rd.hs() {
            Some(hs) => {
                if *hs != cur_hs {
                    ctx.v("C07", "Ready hard state is not the current hard state", format!("node {}: {:?} vs {:?}", id, hs, cur_hs));
                }
                if !differs {
                    ctx.v("C07", "hard state handed out twice", format!("node {}: {:?}", id, hs));
                }
            }
            None => {
                if differs {
                    ctx.v(
                        "C07",
                        "hard state change not handed out",
                        format!("node {}: current {:?}, last handed out {:?}", id, cur_hs, l.last_hs),
                    );
                }
            }
        }
        let tv_changed = cur_hs.term != l.last_hs.term || cur_hs.vote != l.last_hs.vote;
        if (!rd.entries().is_empty() || !rd.snapshot().is_empty() || tv_changed) && !rd.must_sync() {
            ctx.v("C07", "must_sync not set", format!("node {}: entries {} snapshot {} term/vote changed {}", id, rd.entries().len(), !rd.snapshot().is_empty(), tv_changed));
        }
        // entries: exactly the unstable suffix
        let unstable = &l.rn.raft.raft_log.unstable.entries;
        if rd.entries() != unstable {
            ctx.v("C07", "Ready entries are not the unstable suffix", format!("node {}: {} vs {} entries", id, rd.entries().len(), unstable.len()));
        }
        if let Some(e0) = rd.entries().first() {
            let st = l.rn.store();
            let (last, term_there) = if rd.snapshot().is_empty() {
                (st.last(), st.term_of(e0.index))
            } else {
                (rd.snapshot().get_metadata().index, None)
            };
            let ok = e0.index == last + 1 || (e0.index <= last && term_there != Some(e0.term));
            if !ok {
                ctx.v(
                    "C07",
                    "entries to persist do not start at the end of storage or at a conflict",
                    format!("node {}: first entry ({}, term {}) storage last {} term there {:?}", id, e0.index, e0.term, last, term_there),
                );
            }
            let mut exp = e0.index;
            for e in rd.entries() {
                if e.index != exp {
                    ctx.v("C07", "entries to persist are not contiguous", format!("node {}: {} expected {}", id, e.index, exp));
                    break;
                }
                exp += 1;
            }
        }
        if !rd.snapshot().is_empty() && !rd.committed_entries().is_empty() {
            ctx.v("C07", "Ready carries a snapshot and committed entries", format!("node {}", id));
        }
        // C08
        let lease = self.cfg(i).lease_read;
        for rs in rd.read_states() {
            ctx.stat(Stat::ReadStates);
            if self.scen.same_read_ctx {
                continue;
            }
            let mut b = [0u8; 4];
            if rs.request_ctx.len() == 4 {
                b.copy_from_slice(&rs.request_ctx);
            }
            let mut c = u32::from_le_bytes(b);
            if self.scen.empty_first_ctx && rs.request_ctx.is_empty() {
                c = 1; // the first request of the run carries the empty context
            }
            match self.ghost.reads.get(&c) {
                None => ctx.v("C08", "read state for an unknown request", format!("node {} ctx {:?}", id, rs.request_ctx)),
                Some((issuer, g)) => {
                    if *issuer as u64 != id {
                        ctx.v("C08", "read state returned on another node", format!("request {} issued at {} answered at {}", c, issuer, id));
                    }
                    if !lease && rs.index < *g {
                        ctx.v(
                            "C08",
                            "read index below the commit index at issue time",
                            format!("request {} at node {}: read index {} but commit index {} had been reached when it was issued", c, id, rs.index, g),
                        );
                    }
                }
            }
        }
        let snap_idx = if rd.snapshot().is_empty() { None } else { Some(rd.snapshot().get_metadata().index) };
        let l = self.nodes[i].live.as_mut().unwrap();
        l.last_hs = cur_hs;
        if let Some(si) = snap_idx {
            if si < l.cursor {
                ctx.v("C07", "snapshot handed out behind the apply cursor", format!("node {}: snapshot {} cursor {}", id, si, l.cursor));
            }
            l.cursor = si;
        }
    }

    pub fn check_after_advance(&mut self, i: usize, ctx: &mut Ctx) {
        let l = self.live(i).unwrap();
        let cur = l.rn.raft.hard_state();
        if cur != l.last_hs {
            ctx.v(
                "C07",
                "hard state after advance differs from what was handed out",
                format!("node {}: current {:?}, handed out {:?}", i + 1, cur, l.last_hs),
            );
        }
    }

    /// Committed entries handed out (Ready or LightReady): cursor model + registry.
    pub fn check_hand_out(&mut self, i: usize, ents: &[Entry], ctx: &mut Ctx) {
        let id = i as u64 + 1;
        let cfg = self.cfg(i);
        let term_now = self.live(i).unwrap().rn.raft.term;
        let is_leader = self.live(i).unwrap().rn.raft.state == StateRole::Leader;
        for e in ents {
            let (cursor, notified) = {
                let l = self.live(i).unwrap();
                (l.cursor, l.notified)
            };
            if e.index != cursor + 1 {
                ctx.v(
                    "C07",
                    "committed entries handed out with a gap or a repeat",
                    format!("node {}: handed index {} but cursor is {}", id, e.index, cursor),
                );
            }
            let l = self.live(i).unwrap();
            match rl_entry(&l.rn, e.index) {
                Some(le) if le == e => {}
                Some(le) => ctx.v("C07", "handed-out entry differs from the log", format!("node {} index {}: term {} vs log term {}", id, e.index, e.term, le.term)),
                None => {}
            }
            if e.index > l.rn.raft.raft_log.committed {
                ctx.v("C07", "uncommitted entry handed out for apply", format!("node {} index {} commit {}", id, e.index, l.rn.raft.raft_log.committed));
            }
            if cfg.max_apply_unpersisted > 0 && is_leader {
                // apply-before-persist: at most `limit` entries beyond what was reported persisted
                let limit = l.rn.raft.raft_log.max_apply_unpersisted_log_limit;
                if e.index > notified {
                    ctx.stat(Stat::AppliedUnpersisted);
                }
                if e.index > notified.saturating_add(limit) {
                    ctx.v(
                        "C07",
                        "entry handed out beyond persisted + max_apply_unpersisted_log_limit",
                        format!("node {} index {}: notified persisted up to {}, limit {}", id, e.index, notified, limit),
                    );
                }
            }
            if cfg.max_apply_unpersisted == 0 || !is_leader {
                let disk = &self.nodes[i].disk;
                let durable = disk.entry(e.index).map(|d| d == e).unwrap_or(false);
                if e.index > notified || !durable {
                    ctx.v(
                        "C07",
                        "entry handed out for apply before it was reported persisted",
                        format!("node {} index {}: notified persisted up to {}, durable copy matches: {}", id, e.index, notified, durable),
                    );
                }
            }
            self.c01_report(i, e.index, e.term, edig(e), "handed to the application", term_now, ctx);
            let l = self.nodes[i].live.as_mut().unwrap();
            l.cursor = e.index;
            // C13: payload of own-term entries leaves the uncommitted budget when handed out
            if is_leader && e.term == l.lead_term && e.index > l.lead_tail {
                l.u_bytes = l.u_bytes.saturating_sub(e.data.len() as u64);
            }
        }
    }

    /// has_ready() == (ready() would return something), evaluated on a clone.
    pub fn check_has_ready_clone(&self, i: usize, ctx: &mut Ctx) {
        let Some(l) = self.live(i) else { return };
        ctx.stat(Stat::HasReadyCloneChecks);
        let has = l.rn.has_ready();
        let mut c = l.rn.clone();
        let r = guarded(move || {
            let rd = c.ready();
            !(rd.ss().is_none()
                && rd.hs().is_none()
                && rd.read_states().is_empty()
                && rd.entries().is_empty()
                && rd.snapshot().is_empty()
                && rd.committed_entries().is_empty()
                && rd.messages().is_empty()
                && rd.persisted_messages().is_empty())
        });
        match r {
            Ok(non_empty) => {
                if non_empty != has {
                    ctx.v(
                        "C07",
                        "has_ready() disagrees with ready()",
                        format!("node {}: has_ready {} but ready() non-empty {}", i + 1, has, non_empty),
                    );
                }
            }
            Err((msg, loc)) => {
                if has {
                    // same signature as the panic the real call would give
                    let (kind, detail) = self.panic_kind(i, "ready", &msg, &loc);
                    ctx.v("C20", kind, format!("{} (on a clone, has_ready() was true)", detail));
                }
            }
        }
    }

    /// C20: local-only message types and responses from non-members are rejected with an
    /// error and change no state (evaluated on a clone).
    pub fn check_bad_messages(&self, i: usize, ctx: &mut Ctx) {
        let Some(l) = self.live(i) else { return };
        let before = rn_key(&l.rn);
        let mut c = l.rn.clone();
        let term = l.rn.raft.term;
        let unknown = 99u64;
        let locals = [
            MessageType::MsgHup,
            MessageType::MsgBeat,
            MessageType::MsgUnreachable,
            MessageType::MsgSnapStatus,
            MessageType::MsgCheckQuorum,
        ];
        let resps = [
            MessageType::MsgAppendResponse,
            MessageType::MsgRequestVoteResponse,
            MessageType::MsgHeartbeatResponse,
            MessageType::MsgRequestPreVoteResponse,
        ];
        let peers: Vec<u64> = (1..=self.n() as u64).collect();
        for t in locals.iter().chain(resps.iter()) {
            let is_local = locals.contains(t);
            let froms: Vec<u64> = if is_local { vec![peers[(i + 1) % peers.len()], unknown] } else { vec![unknown] };
            for from in froms {
                for tm in [term, term + 1] {
                    ctx.stat(Stat::BadMsgOffered);
                    let mut m = Message::default();
                    m.set_msg_type(*t);
                    m.from = from;
                    m.to = i as u64 + 1;
                    m.term = tm;
                    m.index = 1;
                    let r = guarded(|| c.step(m));
                    match r {
                        Ok(Err(raft::Error::StepLocalMsg)) if is_local => {}
                        Ok(Err(raft::Error::StepPeerNotFound)) if !is_local => {}
                        Ok(other) => {
                            ctx.v(
                                "C20",
                                format!("{:?} offered to step was not rejected", t),
                                format!("node {}: step({:?} from {} term {}) returned {:?}", i + 1, t, from, tm, other),
                            );
                            return;
                        }
                        Err((msg, loc)) => {
                            ctx.v("C20", format!("panic stepping {:?}", t), format!("node {}: {} @ {}", i + 1, msg, loc));
                            return;
                        }
                    }
                }
            }
        }
        if rn_key(&c) != before {
            ctx.v(
                "C20",
                "rejected message changed state",
                format!("node {}: state digest changed after offering local/non-member messages", i + 1),
            );
        }
    }
    /// C20: every public RawNode entry point an application may call between Ready rounds is
    /// offered to a clone of the node, whatever its role (leader, follower, candidate, learner,
    /// removed node): none may panic. Each call runs on a clone of its own.
    pub fn check_api_probe(&self, i: usize, ctx: &mut Ctx) {
        let Some(l) = self.live(i) else { return };
        let me = i as u64 + 1;
        let other = (i as u64 + 1) % self.n() as u64 + 1;
        let unknown = 99u64;
        let mut probe = |name: &str, f: &mut dyn FnMut(&mut Rn)| {
            ctx.stat(Stat::ApiProbes);
            let mut c = l.rn.clone();
            if let Err((msg, loc)) = guarded(|| f(&mut c)) {
                ctx.v(
                    "C20",
                    format!("panic in {} (probe on a clone): {}", name, msg.lines().next().unwrap_or("").chars().map(|ch| if ch.is_ascii_digit() { '#' } else { ch }).collect::<String>()),
                    format!("node {} ({:?}): {} panicked: {} @ {}", me, l.rn.raft.state, name, msg, loc),
                );
            }
        };
        probe("read_index", &mut |c| c.read_index(vec![0xee]));
        probe("request_snapshot", &mut |c| {
            let _ = c.request_snapshot();
        });
        probe("ping", &mut |c| c.ping());
        probe("campaign", &mut |c| {
            let _ = c.campaign();
        });
        for to in [me, other, unknown, 0] {
            probe("transfer_leader", &mut |c| c.transfer_leader(to));
        }
        for to in [other, unknown] {
            probe("report_unreachable", &mut |c| c.report_unreachable(to));
            probe("report_snapshot(Finish)", &mut |c| c.report_snapshot(to, SnapshotStatus::Finish));
            probe("report_snapshot(Failure)", &mut |c| c.report_snapshot(to, SnapshotStatus::Failure));
        }
        probe("propose", &mut |c| {
            let _ = c.propose(vec![], vec![0xee]);
        });
        probe("propose_conf_change(remove unknown)", &mut |c| {
            let mut cc = raft::eraftpb::ConfChange::default();
            cc.set_change_type(raft::eraftpb::ConfChangeType::RemoveNode);
            cc.node_id = unknown;
            let _ = c.propose_conf_change(vec![], cc);
        });
    }

}
