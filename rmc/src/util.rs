//! Small helpers: canonical byte writer + 128-bit key, panic capture, entry digests.

use raft::eraftpb::{ConfState, Entry, HardState, Message, Snapshot};
use std::cell::RefCell;
use std::hash::Hasher;

#[derive(Default)]
pub struct W(pub Vec<u8>);

impl W {
    #[inline]
    pub fn u8(&mut self, v: u8) {
        self.0.push(v)
    }
    #[inline]
    pub fn b(&mut self, v: bool) {
        self.0.push(v as u8)
    }
    #[inline]
    pub fn u64(&mut self, v: u64) {
        // varint-ish: most values are tiny
        if v < 0xfe {
            self.0.push(v as u8);
        } else {
            self.0.push(0xff);
            self.0.extend_from_slice(&v.to_le_bytes());
        }
    }
    #[inline]
    pub fn us(&mut self, v: usize) {
        self.u64(v as u64)
    }
    #[inline]
    pub fn bytes(&mut self, v: &[u8]) {
        self.u64(v.len() as u64);
        self.0.extend_from_slice(v);
    }
    pub fn ids(&mut self, v: &[u64]) {
        let mut s: Vec<u64> = v.to_vec();
        s.sort_unstable();
        self.u64(s.len() as u64);
        for x in s {
            self.u64(x);
        }
    }
    pub fn entry(&mut self, e: &Entry) {
        self.u64(e.index);
        self.u64(e.term);
        self.u8(e.get_entry_type() as u8);
        self.bytes(&e.data);
        self.bytes(&e.context);
    }
    pub fn hs(&mut self, h: &HardState) {
        self.u64(h.term);
        self.u64(h.vote);
        self.u64(h.commit);
    }
    pub fn cs(&mut self, c: &ConfState) {
        self.ids(c.get_voters());
        self.ids(c.get_learners());
        self.ids(c.get_voters_outgoing());
        self.ids(c.get_learners_next());
        self.b(c.auto_leave);
    }
    pub fn snap(&mut self, s: &Snapshot) {
        let m = s.get_metadata();
        self.u64(m.index);
        self.u64(m.term);
        self.cs(m.get_conf_state());
        self.bytes(&s.data);
    }
    pub fn msg(&mut self, m: &Message) {
        self.u8(m.get_msg_type() as u8);
        self.u64(m.to);
        self.u64(m.from);
        self.u64(m.term);
        self.u64(m.log_term);
        self.u64(m.index);
        self.u64(m.entries.len() as u64);
        for e in m.entries.iter() {
            self.entry(e);
        }
        self.u64(m.commit);
        self.u64(m.commit_term);
        if m.has_snapshot() && !m.get_snapshot().is_empty() {
            self.u8(1);
            self.snap(m.get_snapshot());
        } else {
            self.u8(0);
        }
        self.u64(m.request_snapshot);
        self.b(m.reject);
        self.u64(m.reject_hint);
        self.bytes(&m.context);
        self.u64(m.priority as u64);
    }
    pub fn key(&self) -> u128 {
        #[allow(deprecated)]
        let mut a = std::hash::SipHasher::new_with_keys(0x9e3779b97f4a7c15, 0xbf58476d1ce4e5b9);
        #[allow(deprecated)]
        let mut b = std::hash::SipHasher::new_with_keys(0x94d049bb133111eb, 0x2545f4914f6cdd1d);
        a.write(&self.0);
        b.write(&self.0);
        ((a.finish() as u128) << 64) | b.finish() as u128
    }
}

#[inline]
pub fn mix(a: u64, b: u64) -> u64 {
    let mut x = a ^ b.wrapping_mul(0x9e3779b97f4a7c15);
    x ^= x >> 32;
    x = x.wrapping_mul(0xd6e8feb86659fd93);
    x ^= x >> 32;
    x = x.wrapping_mul(0xd6e8feb86659fd93);
    x ^= x >> 32;
    x
}

pub fn hbytes(b: &[u8]) -> u64 {
    let mut h = 0xcbf29ce484222325u64 ^ (b.len() as u64);
    for x in b {
        h = mix(h, *x as u64 + 1);
    }
    h
}

/// Digest of an entry's identity for C01/C05: (term, type, payload, context). Index is the key.
pub fn edig(e: &Entry) -> u64 {
    let mut h = mix(e.term, e.get_entry_type() as u64 + 17);
    h = mix(h, hbytes(&e.data));
    h = mix(h, hbytes(&e.context));
    h
}

/// fold step of the state-machine digest
pub fn sm_fold(prev: u64, index: u64, dig: u64) -> u64 {
    mix(mix(prev, index), dig)
}

thread_local! {
    pub static LAST_PANIC: RefCell<Option<(String, String)>> = const { RefCell::new(None) };
    pub static IN_GUARD: std::cell::Cell<bool> = const { std::cell::Cell::new(false) };
}

pub fn install_panic_hook() {
    std::panic::set_hook(Box::new(|info| {
        let msg = if let Some(s) = info.payload().downcast_ref::<&str>() {
            s.to_string()
        } else if let Some(s) = info.payload().downcast_ref::<String>() {
            s.clone()
        } else {
            "<non-string panic>".to_string()
        };
        let loc = info
            .location()
            .map(|l| format!("{}:{}", l.file(), l.line()))
            .unwrap_or_default();
        if std::env::var("RMC_PANIC_VERBOSE").is_ok() || !IN_GUARD.with(|g| g.get()) {
            eprintln!("panic: {} @ {}", msg, loc);
        }
        LAST_PANIC.with(|p| *p.borrow_mut() = Some((msg, loc)));
    }));
}

pub fn take_panic() -> (String, String) {
    LAST_PANIC
        .with(|p| p.borrow_mut().take())
        .unwrap_or_else(|| ("<unknown>".into(), "".into()))
}

/// Runs `f`, converting a panic into Err((message, location)).
pub fn guarded<R>(f: impl FnOnce() -> R) -> Result<R, (String, String)> {
    let was = IN_GUARD.with(|g| g.replace(true));
    let r = std::panic::catch_unwind(std::panic::AssertUnwindSafe(f));
    IN_GUARD.with(|g| g.set(was));
    match r {
        Ok(r) => Ok(r),
        Err(_) => Err(take_panic()),
    }
}

pub fn now_s() -> f64 {
    use std::time::{SystemTime, UNIX_EPOCH};
    SystemTime::now()
        .duration_since(UNIX_EPOCH)
        .map(|d| d.as_secs_f64())
        .unwrap_or(0.0)
}
