//! C10: bounded convergence from every reachable state. For every distinct state of a
//! prefix space the deterministic fault-free suffix below is run on a clone; the state
//! is a violation only if it fails under all schedulers of the portfolio (election
//! timeout salts 0, 1, 2 of hook H3).

use crate::refconf::RefConf;
use crate::types::*;
use crate::world::*;
use raft::StateRole;
use std::collections::BTreeSet;

pub enum Outcome {
    /// converged; the flag tells whether a MsgSnapshot travelled during the suffix
    Converged(bool),
    Skipped(&'static str),
    Failed(String),
    Dead,
}

fn member_of_own_conf(w: &World, i: usize) -> bool {
    let id = i as u64 + 1;
    match w.live(i) {
        Some(l) => RefConf::from_cs(&l.rn.store().app.conf).members().contains(&id),
        None => RefConf::from_cs(&w.nodes[i].disk.app.conf).members().contains(&id),
    }
}

fn running_set(w: &World, stopped: &BTreeSet<usize>) -> BTreeSet<u64> {
    (0..w.n()).filter(|i| w.live(*i).is_some() && !stopped.contains(i)).map(|i| i as u64 + 1).collect()
}

fn active_conf(w: &World, j: usize) -> RefConf {
    RefConf::from_cs(&w.live(j).unwrap().rn.raft.prs().conf().to_conf_state())
}

/// Node i is still needed: some other running node's own active configuration has a running
/// majority with i and none without it.
fn needed(w: &World, stopped: &BTreeSet<usize>, i: usize) -> bool {
    let with = running_set(w, stopped);
    let mut without = with.clone();
    without.remove(&(i as u64 + 1));
    (0..w.n()).any(|j| {
        j != i && w.live(j).is_some() && !stopped.contains(&j) && {
            let c = active_conf(w, j);
            c.is_quorum(&with) && !c.is_quorum(&without)
        }
    })
}

/// the configuration in force: the reference configuration at the highest registered index
fn conf_in_force(w: &World) -> RefConf {
    let (_, cs) = w.ghost.conf_at.iter().next_back().unwrap();
    RefConf::from_cs(cs)
}

pub fn run_suffix(w0: &World, salt: u64, slow_snap: bool, ctx: &mut Ctx) -> Outcome {
    raft::verif::set_election_salt(salt);
    let r = suffix(w0, slow_snap, ctx);
    raft::verif::set_election_salt(0);
    r
}

fn suffix(w0: &World, slow_snap: bool, ctx: &mut Ctx) -> Outcome {
    let mut w = w0.clone();
    w.in_prefix = true; // no budgets, explicit Ready handling
    let n = w.n();
    let max_to = (0..n).map(|i| w.cfg(i).max_election_tick).max().unwrap();
    // the slow snapshot channel needs more than two election timeouts per snapshot
    let delay = 2 * max_to + 2;
    if slow_snap {
        w.slow_snap = delay;
    }
    let force = conf_in_force(&w);
    let mut stopped: BTreeSet<usize> = BTreeSet::new();
    let mut rule_stopped: BTreeSet<usize> = BTreeSet::new();
    // 1. restart crashed nodes; decide who is shut down for good
    for i in 0..n {
        let created = w.nodes[i].created;
        if w.live(i).is_none() {
            if (!created && !w.cfg(i).boot) || w.scen.down_forever.contains(&(i as u8 + 1)) {
                stopped.insert(i);
                continue;
            }
            if !w.start_node(i, ctx) {
                return Outcome::Dead;
            }
        }
        let id = i as u64 + 1;
        let pvcq = w.cfg(i).pre_vote && w.cfg(i).check_quorum;
        if !member_of_own_conf(&w, i) || (!force.members().contains(&id) && !pvcq) {
            stopped.insert(i);
            rule_stopped.insert(i);
        }
    }
    // A removed node is shut down only once the others can do without it: while a running
    // node's own configuration (it has not learnt of the removal yet) has no running
    // majority, the removed voters it lists keep running. (The statement presupposes "a
    // majority of each voter set running"; an application that destroys a removed peer
    // before its successors know the removal is committed breaks that itself.)
    loop {
        let running = running_set(&w, &stopped);
        let mut changed = false;
        for j in 0..n {
            if stopped.contains(&j) || w.live(j).is_none() {
                continue;
            }
            let conf = active_conf(&w, j);
            if conf.is_quorum(&running) {
                continue;
            }
            let back: Vec<usize> = rule_stopped
                .iter()
                .cloned()
                .filter(|k| stopped.contains(k) && (conf.voters.contains(&(*k as u64 + 1)) || conf.outgoing.contains(&(*k as u64 + 1))))
                .collect();
            let mut with = running.clone();
            with.extend(back.iter().map(|k| *k as u64 + 1));
            if !back.is_empty() && conf.is_quorum(&with) {
                for k in back {
                    stopped.remove(&k);
                }
                changed = true;
                break;
            }
        }
        if !changed {
            break;
        }
    }
    for i in &stopped {
        if w.live(*i).is_some() {
            w.crash(*i, usize::MAX, ctx);
        }
    }
    // precondition of the statement: a majority of each voter set is running
    let running: BTreeSet<u64> = (0..n).filter(|i| !stopped.contains(i)).map(|i| i as u64 + 1).collect();
    if !force.is_quorum(&running) {
        return Outcome::Skipped("no quorum of the configuration in force is running");
    }
    let rounds = (n + 3) * max_to + if slow_snap { 3 * delay } else { 0 };

    let mut round = |w: &mut World, stopped: &mut BTreeSet<usize>, ctx: &mut Ctx| -> bool {
        if !w.slow_lane_round(ctx) {
            return false;
        }
        // pending snapshots are reported done (those on the slow channel when they arrive)
        for i in 0..w.n() {
            let outs: Vec<u64> = w.live(i).map(|l| l.snap_out.clone()).unwrap_or_default();
            for to in outs {
                if w.slow_lane.iter().any(|(f, t, _, _)| *f as usize == i + 1 && *t as u64 == to) {
                    continue;
                }
                if !w.apply(&Action::ReportSnap(i as u8 + 1, to as u8, true), ctx) {
                    return false;
                }
            }
        }
        for i in 0..w.n() {
            if w.live(i).is_none() {
                continue;
            }
            if !w.apply(&Action::Tick(i as u8 + 1), ctx) {
                return false;
            }
            if w.settle_node(i, ctx).is_none() {
                return false;
            }
        }
        if !w.settle(ctx) {
            return false;
        }
        // a node that has applied its own removal is shut down by the application
        // (once the others can do without it, see above)
        for i in 0..w.n() {
            let id = i as u64 + 1;
            let pvcq = w.cfg(i).pre_vote && w.cfg(i).check_quorum;
            // same rule as at the start of the suffix: the operator also stops a node that the
            // configuration in force (it may have changed during the suffix) no longer lists
            let gone = !member_of_own_conf(w, i) || (!conf_in_force(w).members().contains(&id) && !pvcq);
            if w.live(i).is_some() && gone && !needed(w, stopped, i) {
                stopped.insert(i);
                w.crash(i, usize::MAX, ctx);
            }
        }
        // messages to stopped nodes go nowhere
        let dead: Vec<u8> = stopped.iter().map(|i| *i as u8 + 1).collect();
        w.net.retain(|(_, t), _| !dead.contains(t));
        w.slow_lane.retain(|(_, t, _, _)| !dead.contains(t));
        true
    };

    if !w.settle(ctx) {
        return Outcome::Dead;
    }
    for _ in 0..rounds {
        if !round(&mut w, &mut stopped, ctx) {
            return Outcome::Dead;
        }
    }
    // 2. a fresh proposal at the leader
    let leaders: Vec<usize> = (0..n)
        .filter(|i| w.live(*i).map(|l| l.rn.raft.state == StateRole::Leader).unwrap_or(false))
        .collect();
    if leaders.len() != 1 {
        return Outcome::Failed(format!(
            "after {} fault-free rounds there are {} leaders\n{}",
            rounds,
            leaders.len(),
            w.describe()
        ));
    }
    let li = leaders[0];
    // replication must not depend on further proposals: every running member of the leader's
    // configuration already holds the leader's log and commit index
    {
        let lr = &w.live(li).unwrap().rn;
        let lconf = RefConf::from_cs(&lr.raft.prs().conf().to_conf_state());
        let (llast, lterm, lcommit) = (lr.raft.raft_log.last_index(), lr.raft.raft_log.last_term(), lr.raft.raft_log.committed);
        for i in 0..n {
            let id = i as u64 + 1;
            let Some(l) = w.live(i) else { continue };
            if !lconf.members().contains(&id) {
                continue;
            }
            let rl = &l.rn.raft.raft_log;
            if rl.last_index() != llast || rl.last_term() != lterm || rl.committed != lcommit {
                return Outcome::Failed(format!(
                    "before any further proposal, member {} did not converge to the leader {} (last {} term {} commit {}) after {} fault-free rounds\n{}",
                    id,
                    li + 1,
                    llast,
                    lterm,
                    lcommit,
                    rounds,
                    w.describe()
                ));
            }
        }
    }
    let before = w.live(li).unwrap().rn.raft.raft_log.last_index();
    if !w.apply(&Action::Propose(li as u8 + 1, 0), ctx) {
        return Outcome::Dead;
    }
    let fresh = before + 1;
    if w.live(li).unwrap().rn.raft.raft_log.last_index() != fresh {
        return Outcome::Failed(format!(
            "the leader {} refused a fresh proposal after {} fault-free rounds\n{}",
            li + 1,
            rounds,
            w.describe()
        ));
    }
    for _ in 0..rounds {
        if !round(&mut w, &mut stopped, ctx) {
            return Outcome::Dead;
        }
    }
    // 3. oracle
    let leaders: Vec<usize> = (0..n)
        .filter(|i| w.live(*i).map(|l| l.rn.raft.state == StateRole::Leader).unwrap_or(false))
        .collect();
    if leaders.len() != 1 {
        return Outcome::Failed(format!("{} leaders at the end\n{}", leaders.len(), w.describe()));
    }
    let li = leaders[0];
    let lr = &w.live(li).unwrap().rn;
    let lconf = RefConf::from_cs(&lr.raft.prs().conf().to_conf_state());
    let (llast, lterm, lcommit) = (
        lr.raft.raft_log.last_index(),
        lr.raft.raft_log.last_term(),
        lr.raft.raft_log.committed,
    );
    if lcommit < fresh {
        // circumstance of recorded finding F6: followers whose pending snapshot request names
        // an index beyond the leader's commit index refuse every append until a snapshot at
        // that index arrives, and without them no quorum is left to commit it
        let requesters: BTreeSet<u64> = (0..n)
            .filter(|i| w.live(*i).map(|l| l.rn.raft.pending_request_snapshot > lcommit).unwrap_or(false))
            .map(|i| i as u64 + 1)
            .collect();
        let others: BTreeSet<u64> = (0..n)
            .filter(|i| w.live(*i).is_some() && !requesters.contains(&(*i as u64 + 1)))
            .map(|i| i as u64 + 1)
            .collect();
        let tag = if !requesters.is_empty() && !lconf.is_quorum(&others) {
            " [a follower's pending snapshot request names an uncommitted index that cannot commit without that follower]"
        } else {
            ""
        };
        return Outcome::Failed(format!(
            "the fresh entry {} is not committed on the leader {} (commit {}){}\n{}",
            fresh,
            li + 1,
            lcommit,
            tag,
            w.describe()
        ));
    }
    for i in 0..n {
        let id = i as u64 + 1;
        let Some(l) = w.live(i) else { continue };
        if !lconf.members().contains(&id) {
            continue;
        }
        let rl = &l.rn.raft.raft_log;
        if rl.last_index() != llast || rl.last_term() != lterm || rl.committed != lcommit {
            return Outcome::Failed(format!(
                "member {} did not converge to the leader {} (last {} term {} commit {})\n{}",
                id,
                li + 1,
                llast,
                lterm,
                lcommit,
                w.describe()
            ));
        }
        if l.rn.store().app.applied < fresh {
            return Outcome::Failed(format!(
                "member {} was not handed the fresh entry {} (applied {})\n{}",
                id,
                fresh,
                l.rn.store().app.applied,
                w.describe()
            ));
        }
    }
    Outcome::Converged(w.snap_msgs_delivered > 0)
}

/// State hook: runs the portfolio; reports C10 only if every scheduler fails.
pub fn live_hook(w: &World, ctx: &mut Ctx) {
    let mut failures = vec![];
    // violations of other properties met inside the suffix are not this hook's business
    let mut scratch = Ctx::new();
    let mut snap_travelled = false;
    for salt in 0..3u64 {
        ctx.stat(Stat::LiveSuffixRuns);
        match run_suffix(w, salt, false, &mut scratch) {
            Outcome::Converged(s) => {
                snap_travelled = s;
                break;
            }
            Outcome::Skipped(_) => return,
            Outcome::Dead => {
                // a panic inside the suffix is a C20 matter; the prefix spaces have their own check
                return;
            }
            Outcome::Failed(why) => failures.push(why),
        }
    }
    if failures.len() < 3 {
        if !snap_travelled {
            return;
        }
        // a snapshot is part of the recovery: the same suffix with MsgSnapshot on a slow side
        // channel (more than two election timeouts per snapshot, everything else flowing)
        failures.clear();
        for salt in 0..3u64 {
            ctx.stat(Stat::LiveSlowSnapRuns);
            match run_suffix(w, salt, true, &mut scratch) {
                Outcome::Converged(_) | Outcome::Skipped(_) | Outcome::Dead => return,
                Outcome::Failed(why) => failures.push(format!("[snapshots on a slow channel] {}", why)),
            }
        }
    }
    ctx.v(
        "C10",
        format!(
            "no convergence under any scheduler: {}",
            failures[0].lines().next().unwrap_or("").chars().map(|c| if c.is_ascii_digit() { '#' } else { c }).collect::<String>()
        ),
        failures[0].clone(),
    );
}
