mod check;
mod components;
mod explore;
mod known;
mod live;
mod monitors;
mod plan;
mod refconf;
mod scen;
mod sim;
mod types;
mod util;
mod world;

use explore::*;
use types::*;

fn arg_val(args: &[String], name: &str) -> Option<String> {
    args.iter().position(|a| a == name).and_then(|p| args.get(p + 1).cloned())
}

fn print_result(r: &RunResult) {
    println!(
        "scenario={} states={} transitions={} max_depth={} dead={} validated={} exhaustive={} cap={:?} wall={:.1}s ({:.0} tr/s)",
        r.scenario,
        r.states,
        r.transitions,
        r.max_depth,
        r.dead_branches,
        r.validated,
        r.exhaustive,
        r.cap_hit,
        r.wall_s,
        r.transitions as f64 / r.wall_s.max(1e-9)
    );
    let mut st = vec![];
    for k in 0..NSTAT {
        if r.stats[k] > 0 {
            st.push(format!("{}={}", STAT_NAMES[k], r.stats[k]));
        }
    }
    println!("  stats: {}", st.join(" "));
    for f in &r.found {
        println!(
            "  FOUND {} [{}] x{} known={} path_len={}\n    {}",
            f.v.prop,
            f.v.kind,
            f.count,
            known::is_known(&f.v),
            f.path.len(),
            f.v.detail
        );
    }
    if let Some(e) = &r.machinery_error {
        println!("  MACHINERY ERROR: {}", e);
    }
}

fn main() {
    util::install_panic_hook();
    // a panic of the machinery itself is exit 2, never a verdict
    let r = std::panic::catch_unwind(real_main);
    if r.is_err() {
        eprintln!("machinery: internal panic");
        std::process::exit(2);
    }
}

fn real_main() {
    let args: Vec<String> = std::env::args().collect();
    known::load("/verif/known_findings.json");
    let cmd = args.get(1).map(|s| s.as_str()).unwrap_or("");
    let threads = arg_val(&args, "--threads")
        .and_then(|v| v.parse().ok())
        .unwrap_or_else(|| std::thread::available_parallelism().map(|n| n.get()).unwrap_or(8));
    let seed: u64 = std::env::var("VERIF_SEED").ok().and_then(|v| v.parse().ok()).unwrap_or(0);
    match cmd {
        "explore" => {
            let name = args.get(2).expect("scenario");
            let level: u8 = args.get(3).and_then(|v| v.parse().ok()).unwrap_or(1);
            let budget: f64 = arg_val(&args, "--budget").and_then(|v| v.parse().ok()).unwrap_or(60.0);
            let mut s = scen::build(name, level).expect("unknown scenario");
            if args.iter().any(|a| a == "--clone-checks") {
                s.clone_checks = true;
            }
            if args.iter().any(|a| a == "--api-probe") {
                s.api_probe = true;
            }
            let s = scen::leak(s);
            let cfg = RunCfg {
                threads,
                budget_s: budget,
                max_states: 400_000_000,
                depth_cap: 400,
                seed,
                targets: vec![],
                rss_cap_gb: 40.0,
                state_hook: if args.iter().any(|a| a == "--live") { Some(live::live_hook) } else { None },
            };
            let r = explore(s, &cfg);
            print_result(&r);
            if args.iter().any(|a| a == "--show") {
                for f in &r.found {
                    let p = shrink(s, &f.path, f.v.prop, &f.v.kind, cfg.state_hook);
                    println!("--- shrunk path for {} [{}] ({} steps)", f.v.prop, f.v.kind, p.len());
                    let rp = replay(s, &p, true, cfg.state_hook);
                    for l in rp.trace {
                        println!("{}", l);
                    }
                }
            }
        }
        "check" => {
            let prop = args.get(2).expect("property id").clone();
            let tier = args.get(3).cloned().unwrap_or_else(|| "quick".into());
            let Some(pid) = plan::PROPS.iter().find(|p| **p == prop) else {
                eprintln!("unknown property {}", prop);
                std::process::exit(2);
            };
            let code = check::run_check(pid, &tier, threads, seed);
            std::process::exit(code);
        }
        "replay" => {
            let f = args.get(2).expect("replay file");
            std::process::exit(check::run_replay(f));
        }
        _ => {
            eprintln!("usage: rmc explore <scenario> <level> [--budget s] [--threads n] [--show]");
            std::process::exit(2);
        }
    }
}
