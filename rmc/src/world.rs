//! The simulated world: real RawNodes over SimStorage, a network, per-node disks and
//! the simulated application that follows the documented Ready/advance contract.

use crate::sim::{AppState, Store, WriteOp};
use crate::types::*;
use crate::util::*;
use raft::eraftpb::{
    ConfChange, ConfChangeSingle, ConfChangeTransition, ConfChangeType, ConfChangeV2, ConfState,
    Entry, EntryType, HardState, Message, MessageType,
};
use raft::{Config, ProgressState, RawNode, ReadOnlyOption, SnapshotStatus, StateRole};
use std::collections::{BTreeMap, VecDeque};

use protobuf::Message as PbMessage;

pub type Rn = RawNode<Store>;

#[derive(Clone, Debug, Default, PartialEq)]
pub struct FlowGhost {
    /// last indexes of entry-carrying appends generated while Replicate, not yet acked
    pub window: VecDeque<u64>,
    /// largest capacity in force since the window was last empty
    pub bound: usize,
    /// an entry-carrying append is outstanding in Probe state
    pub probe_out: bool,
    /// highest index this follower acknowledged to this leader in this term (delivered
    /// non-reject MsgAppendResponse), independent of the leader's own `matched`
    pub acked: u64,
}

#[derive(Clone)]
pub struct Held {
    pub number: u64,
    pub msgs: Vec<Message>,
    /// storage last index after this Ready's writes (for the persisted-notification model)
    pub log_last: u64,
    /// loose async order: already fsynced and its messages sent, notification outstanding
    pub synced: bool,
}

#[derive(Clone)]
pub struct Live {
    pub rn: Rn,
    pub unsynced: Vec<(u64, WriteOp)>,
    pub held: Vec<Held>,
    pub to_apply: VecDeque<Entry>,
    pub inputs: u8,
    // ---- application-side models (ghost, but owned by the incarnation)
    pub cursor: u64,
    pub last_hs: HardState,
    pub notified: u64,
    pub u_bytes: u64,
    pub lead_term: u64,
    pub lead_tail: u64,
    pub flow: BTreeMap<u64, FlowGhost>,
    pub snap_out: Vec<u64>,
    /// index of the last snapshot released to each peer (C15: replication resumes after it)
    pub snap_idx: BTreeMap<u64, u64>,
    pub xfer: Option<(u64, u32)>,
    pub prevote_grants: Vec<u64>,
    pub prevote_term: u64,
    /// (message term, acked index, term of the entry at that index when the ack was generated)
    pub ack_terms: Vec<(u64, u64, u64)>,
    /// apply-lag mode: a snapshot was installed and advance_apply_to(snapshot index) is still due
    pub snap_ack_pending: bool,
}

#[derive(Clone, Default)]
pub struct NodeGhost {
    pub max_term_told: u64,
    /// (term, candidate) for every vote grant released
    pub votes: Vec<(u64, u64)>,
    /// highest index acknowledged (released non-reject MsgAppendResponse) per message term,
    /// with the term of the acknowledged entry: (message term, index, entry term)
    pub acked: Vec<(u64, u64, u64)>,
    /// a crash took the node's knowledge that a membership change in its durable log is
    /// committed (entries durable, the hard state carrying the commit index not): the commit
    /// index it had known (0 = no such loss)
    pub lost_cc_commit: u64,
    /// number of pre-campaigns this node has started (ghost round counter)
    pub pre_round: u32,
}

#[derive(Clone)]
pub struct Node {
    pub live: Option<Live>,
    pub disk: Store,
    pub created: bool,
    pub g: NodeGhost,
}

#[derive(Clone, Default)]
pub struct Ghost {
    /// committed-log registry: cl[i] = (term, digest) of the entry committed at index i
    pub cl: Vec<Option<(u64, u64)>>,
    /// fold of cl[1..=i]
    pub cl_fold: Vec<Option<u64>>,
    /// term of the node that first reported index i committed
    pub commit_term_of: Vec<u64>,
    pub leader_of: BTreeMap<u64, u64>,
    /// terms whose recorded leader never had (term, vote = itself) on its durable disk
    pub leader_volatile: std::collections::BTreeSet<u64>,
    /// terms in which some node led while a crash had taken its knowledge that a membership
    /// change in its log is committed (NodeGhost::lost_cc_commit) and it had not re-applied it
    pub leader_torn: std::collections::BTreeSet<u64>,
    /// released pre-vote grants not yet delivered: (from, to, term, round of `to` at release)
    pub pre_grants: Vec<(u64, u64, u64, u32)>,
    /// terms some node campaigns for after counting a pre-vote grant of an earlier round
    pub stale_grant_terms: std::collections::BTreeSet<u64>,
    pub max_commit_ever: u64,
    pub max_leader_commit: u64,
    /// bit i: index i was covered by a commit advance of a node acting as leader (C04)
    pub cl_by_leader: u64,
    /// ctx -> (issuer, max commit when issued)
    pub reads: BTreeMap<u32, (u8, u64)>,
    /// reference configuration after applying the conf entries of cl up to index i
    pub conf_at: BTreeMap<u64, ConfState>,
}

#[derive(Clone)]
pub struct World {
    pub scen: &'static Scenario,
    pub nodes: Vec<Node>,
    pub net: BTreeMap<(u8, u8), Vec<Message>>,
    pub ghost: Ghost,
    pub used: Counts,
    pub next_payload: u32,
    pub next_read: u32,
    pub in_prefix: bool,
    /// LEASE: a LockTick happened and its traffic is not delivered yet
    pub lock_phase: bool,
    /// LEASE: the term the lock-step majority must keep
    pub lock_term: u64,
    /// C10 suffix only (never set in explored states): MsgSnapshot travels on a slow side
    /// channel that takes this many rounds (0 = same channel as everything else)
    /// prefix only: settle does not apply (Action::HoldApply)
    pub hold_apply: bool,
    pub slow_snap: usize,
    /// C10 suffix only: snapshots on the slow channel (from, to, message, rounds left)
    pub slow_lane: Vec<(u8, u8, Message, usize)>,
    /// C10 suffix only: number of MsgSnapshot messages delivered by settle()
    pub snap_msgs_delivered: u32,
}

/// Observation of one node before/after an API call.
#[derive(Clone, Debug)]
pub struct Snap {
    pub role: StateRole,
    pub term: u64,
    pub vote: u64,
    pub lead: u64,
    pub committed: u64,
    pub persisted: u64,
    pub applied: u64,
    pub first: u64,
    pub last: u64,
    pub last_term: u64,
    pub base_term: u64,
    /// the node itself can tell the term at first-1 (false only in the "-memq" scenarios)
    pub base_known: bool,
    /// (term, digest, entry type) for first..=last
    pub log: Vec<(u64, u64, u8)>,
    pub msgs_len: usize,
    /// copy of the pending messages (only for batch_append nodes, where queued messages are edited)
    pub msgs: Option<Vec<Message>>,
    pub transferee: Option<u64>,
    pub pending_snap: Option<(u64, u64)>,
    pub joint: bool,
    pub is_voter: bool,
    pub singleton: bool,
    pub pending_request_snapshot: u64,
    pub uncommitted: usize,
}

impl Snap {
    pub fn at(&self, idx: u64) -> Option<(u64, u64, u8)> {
        if idx < self.first || idx > self.last {
            return None;
        }
        Some(self.log[(idx - self.first) as usize])
    }
}

pub enum CallKind<'a> {
    Tick,
    Step(&'a Message),
    Propose(usize),
    ProposeCc,
    ReadIndex,
    Transfer(u64),
    Campaign,
    Ready,
    Advance,
    AdvanceAsync,
    PersistNotify,
    ApplyTo,
    ApplyConf,
    ReportSnap(u64, bool),
    Unreachable(u64),
    RequestSnap,
    SetCap,
    Fetched,
    New,
}

pub fn rl_entry(rn: &Rn, idx: u64) -> Option<&Entry> {
    let rl = &rn.raft.raft_log;
    if idx >= rl.unstable.offset {
        rl.unstable.entries.get((idx - rl.unstable.offset) as usize)
    } else if rl.unstable.snapshot.is_some() {
        None
    } else {
        rl.store.entry(idx)
    }
}

pub fn snap_of(rn: &Rn) -> Snap {
    let r = &rn.raft;
    let rl = &r.raft_log;
    let first = rl.first_index();
    let last = rl.last_index();
    let mut log = Vec::with_capacity((last + 1).saturating_sub(first) as usize);
    for i in first..=last {
        match rl_entry(rn, i) {
            Some(e) => log.push((e.term, edig(e), e.get_entry_type() as u8)),
            None => log.push((u64::MAX, 0, 0)),
        }
    }
    Snap {
        role: r.state,
        term: r.term,
        vote: r.vote,
        lead: r.leader_id,
        committed: rl.committed,
        persisted: rl.persisted,
        applied: rl.applied,
        first,
        last,
        last_term: rl.term(last).unwrap_or(u64::MAX),
        base_term: match rl.term(first - 1) {
            Ok(t) => t,
            // "-memq": the storage forgot it; the monitors still know the truth
            Err(_) if rl.store.term_lost && first - 1 == rl.store.snap_index => rl.store.snap_term,
            Err(_) => u64::MAX,
        },
        base_known: rl.term(first - 1).is_ok(),
        log,
        msgs_len: r.msgs.len(),
        msgs: if r.verif_view().batch_append {
            Some(r.msgs.clone())
        } else {
            None
        },
        transferee: r.lead_transferee,
        pending_snap: rl
            .unstable
            .snapshot
            .as_ref()
            .map(|s| (s.get_metadata().index, s.get_metadata().term)),
        joint: !r.prs().conf().voters().ids().is_empty() && {
            let cs = r.prs().conf().to_conf_state();
            !cs.get_voters_outgoing().is_empty()
        },
        is_voter: r.prs().conf().voters().contains(r.id),
        singleton: r.prs().conf().voters().is_singleton(),
        pending_request_snapshot: r.pending_request_snapshot,
        uncommitted: r.uncommitted_size(),
    }
}

fn logger() -> slog::Logger {
    slog::Logger::root(slog::Discard, slog::o!())
}

pub fn make_config(c: &NodeCfg, applied: u64) -> Config {
    Config {
        id: c.id,
        election_tick: c.election_tick,
        heartbeat_tick: c.heartbeat_tick,
        applied,
        max_size_per_msg: c.max_size_per_msg,
        max_inflight_msgs: c.max_inflight,
        check_quorum: c.check_quorum,
        pre_vote: c.pre_vote,
        min_election_tick: c.min_election_tick,
        max_election_tick: c.max_election_tick,
        read_only_option: if c.lease_read {
            ReadOnlyOption::LeaseBased
        } else {
            ReadOnlyOption::Safe
        },
        skip_bcast_commit: c.skip_bcast_commit,
        batch_append: c.batch_append,
        priority: c.priority,
        max_uncommitted_size: c.max_uncommitted_size,
        max_committed_size_per_ready: c.max_committed_size_per_ready,
        max_apply_unpersisted_log_limit: c.max_apply_unpersisted,
        disable_proposal_forwarding: c.disable_forwarding,
    }
}

pub fn cc_to_v2(spec: &CcSpec) -> (Option<ConfChange>, ConfChangeV2) {
    fn ty(t: u8) -> ConfChangeType {
        match t {
            0 => ConfChangeType::AddNode,
            1 => ConfChangeType::RemoveNode,
            _ => ConfChangeType::AddLearnerNode,
        }
    }
    match spec {
        CcSpec::V1(t, id) => {
            let mut cc = ConfChange::default();
            cc.set_change_type(ty(*t));
            cc.node_id = *id;
            let v2 = raft_proto::ConfChangeI::as_v2(&cc).into_owned();
            (Some(cc), v2)
        }
        CcSpec::V2(tr, chs) => {
            let mut cc = ConfChangeV2::default();
            cc.set_transition(match tr {
                0 => ConfChangeTransition::Auto,
                1 => ConfChangeTransition::Implicit,
                _ => ConfChangeTransition::Explicit,
            });
            let v: Vec<ConfChangeSingle> = chs
                .iter()
                .map(|(t, id)| raft_proto::new_conf_change_single(*id, ty(*t)))
                .collect();
            cc.set_changes(v.into());
            (None, cc)
        }
    }
}

pub fn decode_cc(e: &Entry) -> Option<ConfChangeV2> {
    match e.get_entry_type() {
        EntryType::EntryConfChange => {
            let mut cc = ConfChange::default();
            cc.merge_from_bytes(&e.data).ok()?;
            Some(raft_proto::ConfChangeI::into_v2(cc))
        }
        EntryType::EntryConfChangeV2 => {
            let mut cc = ConfChangeV2::default();
            cc.merge_from_bytes(&e.data).ok()?;
            Some(cc)
        }
        _ => None,
    }
}

impl World {
    pub fn new(scen: &'static Scenario, ctx: &mut Ctx) -> World {
        let mut cs = ConfState::default();
        cs.set_voters(scen.voters.clone());
        cs.set_learners(scen.learners.clone());
        let mut nodes = vec![];
        for c in &scen.nodes {
            let disk = Store::new(if c.empty_conf { ConfState::default() } else { cs.clone() });
            nodes.push(Node {
                live: None,
                disk,
                created: false,
                g: NodeGhost::default(),
            });
            let _ = c;
        }
        let mut w = World {
            scen,
            nodes,
            net: BTreeMap::new(),
            ghost: Ghost::default(),
            used: Counts::default(),
            next_payload: 1,
            next_read: 1,
            in_prefix: true,
            lock_phase: false,
            lock_term: 0,
            hold_apply: false,
            slow_snap: 0,
            slow_lane: vec![],
            snap_msgs_delivered: 0,
        };
        w.ghost.cl.push(None);
        w.ghost.cl_fold.push(Some(0));
        w.ghost.commit_term_of.push(0);
        w.ghost.conf_at.insert(0, cs);
        for i in 0..scen.nodes.len() {
            if scen.nodes[i].boot {
                w.start_node(i, ctx);
            }
        }
        w
    }

    #[inline]
    pub fn n(&self) -> usize {
        self.nodes.len()
    }
    #[inline]
    pub fn live(&self, i: usize) -> Option<&Live> {
        self.nodes[i].live.as_ref()
    }
    #[inline]
    pub fn cfg(&self, i: usize) -> &'static NodeCfg {
        &self.scen.nodes[i]
    }

    /// (Re)starts node i from its durable disk. Returns false if construction panicked.
    pub fn start_node(&mut self, i: usize, ctx: &mut Ctx) -> bool {
        let disk = self.nodes[i].disk.clone();
        disk.log_unavailable_once.set(false);
        disk.snap_busy_once.set(false);
        disk.fetch_ctx.set(None);
        let mut cfg = make_config(self.cfg(i), disk.app.applied);
        if self.nodes[i].created && self.cfg(i).pre_vote_off_on_restart {
            cfg.pre_vote = false;
        }
        let r = guarded(|| RawNode::new(&cfg, disk.clone(), &logger()));
        let mut rn = match r {
            Ok(Ok(rn)) => rn,
            Ok(Err(e)) => {
                ctx.v(
                    "C20",
                    format!("RawNode::new error: {:?}", e),
                    format!("node {} restart failed: {:?}", i + 1, e),
                );
                return false;
            }
            Err((msg, loc)) => {
                self.panic_violation(i, "RawNode::new", &msg, &loc, ctx);
                return false;
            }
        };
        if self.scen.group_commit {
            rn.raft.enable_group_commit(true);
            let ids: Vec<(u64, u64)> = self
                .scen
                .nodes
                .iter()
                .filter(|c| c.group_id > 0)
                .map(|c| (c.id, c.group_id))
                .collect();
            // highest id first: ids the tracker does not know yet (a node that joins later)
            // come before the members; the call must still assign every known member
            let ids: Vec<(u64, u64)> = ids.into_iter().rev().collect();
            rn.raft.assign_commit_groups(&ids);
            for (pid, g) in &ids {
                if let Some(pr) = rn.raft.prs().get(*pid) {
                    if pr.commit_group_id != *g {
                        ctx.v(
                            "C11",
                            "assign_commit_groups left a tracked member without its group",
                            format!(
                                "node {}: assign_commit_groups({:?}) left member {} with group {} instead of {}",
                                i + 1, ids, pid, pr.commit_group_id, g
                            ),
                        );
                    }
                }
            }
        }
        let mut last_hs = disk.hs.clone();
        if last_hs.commit < disk.snap_index {
            last_hs.commit = disk.snap_index;
        }
        let live = Live {
            rn,
            unsynced: vec![],
            held: vec![],
            to_apply: VecDeque::new(),
            inputs: 0,
            cursor: disk.app.applied,
            last_hs,
            notified: disk.last(),
            u_bytes: 0,
            lead_term: 0,
            lead_tail: 0,
            flow: BTreeMap::new(),
            snap_out: vec![],
            snap_idx: BTreeMap::new(),
            xfer: None,
            prevote_grants: vec![],
            prevote_term: 0,
            ack_terms: vec![],
            snap_ack_pending: false,
        };
        // C06(c): restored state is not behind anything this node told others
        let g = &self.nodes[i].g;
        if disk.hs.term < g.max_term_told {
            ctx.v(
                "C06",
                "restart: term behind told term",
                format!(
                    "node {} restarts with term {} but told others term {}",
                    i + 1,
                    disk.hs.term,
                    g.max_term_told
                ),
            );
        }
        for (t, c) in &g.votes {
            if *t == disk.hs.term && disk.hs.vote != *c {
                ctx.v(
                    "C06",
                    "restart: vote forgotten",
                    format!(
                        "node {} restarts at term {} with vote {} but granted {} its vote in that term",
                        i + 1,
                        t,
                        disk.hs.vote,
                        c
                    ),
                );
            }
        }
        {
            let r = &live.rn.raft;
            if r.term != disk.hs.term || (r.vote != disk.hs.vote && r.term == disk.hs.term) {
                ctx.v(
                    "C06",
                    "restart: durable term/vote not restored",
                    format!(
                        "node {} restarts from durable (term {}, vote {}) but runs with (term {}, vote {})",
                        i + 1,
                        disk.hs.term,
                        disk.hs.vote,
                        r.term,
                        r.vote
                    ),
                );
            }
        }
        self.nodes[i].live = Some(live);
        self.nodes[i].created = true;
        let post = snap_of(&self.nodes[i].live.as_ref().unwrap().rn);
        self.observe_state(i, &post, ctx);
        true
    }

    pub fn panic_violation(&mut self, i: usize, what: &str, msg: &str, loc: &str, ctx: &mut Ctx) {
        ctx.stat(Stat::Panics);
        let (kind, detail) = self.panic_kind(i, what, msg, loc);
        ctx.v("C20", kind, detail);
    }

    /// Signature and detail of a panic in a library call on node i (also used for calls made on
    /// clones by the state monitors).
    pub fn panic_kind(&self, i: usize, what: &str, msg: &str, loc: &str) -> (String, String) {
        // signature: first line of the message without numbers + location file
        let short: String = msg
            .split(", raft_id")
            .next()
            .unwrap_or(msg)
            .chars()
            .map(|c| if c.is_ascii_digit() { '#' } else { c })
            .collect();
        let file = loc.rsplit('/').next().unwrap_or(loc);
        let file = file.split(':').next().unwrap_or(file);
        // the source text at the panic site makes the signature independent of line numbers
        let site = {
            let mut it = loc.rsplitn(2, ':');
            let line: usize = it.next().and_then(|x| x.parse().ok()).unwrap_or(0);
            let path = it.next().unwrap_or("");
            std::fs::read_to_string(path)
                .ok()
                .and_then(|t| t.lines().nth(line.saturating_sub(1)).map(|l| l.trim().to_string()))
                .unwrap_or_default()
        };
        let singleton = self
            .live(i)
            .map(|l| l.rn.raft.prs().conf().voters().is_singleton())
            .unwrap_or(false);
        // circumstances that distinguish the recorded become_leader finding from any other way
        // of reaching the same assertion
        let loose_pending = self.live(i).map(|l| l.held.iter().any(|h| h.synced)).unwrap_or(false);
        (
            format!(
                "panic in {} at {} `{}`: {}{}",
                what,
                file,
                site,
                short.lines().next().unwrap_or(""),
                if singleton {
                    " [singleton-voter]"
                } else if loose_pending {
                    " [loose-async: a fsynced Ready is not yet notified]"
                } else {
                    ""
                }
            ),
            format!("node {} panicked in {}: {} @ {}", i + 1, what, msg, loc),
        )
    }

    /// Runs one API call on node i under catch_unwind with pre/post observation and the
    /// per-call monitors. Returns None if the call panicked (branch is dead).
    pub fn call<R>(
        &mut self,
        i: usize,
        kind: CallKind,
        ctx: &mut Ctx,
        f: impl FnOnce(&mut Rn) -> R,
    ) -> Option<R> {
        let pre = snap_of(&self.nodes[i].live.as_ref().unwrap().rn);
        let pre_flow = self.flow_pre(i);
        let res = {
            let rn = &mut self.nodes[i].live.as_mut().unwrap().rn;
            guarded(|| f(rn))
        };
        match res {
            Ok(r) => {
                // has_ready() is a library call too; the explorer evaluates it in every state
                if !self.has_ready_guarded(i, ctx) {
                    return None;
                }
                let post = snap_of(&self.nodes[i].live.as_ref().unwrap().rn);
                self.after_call(i, &kind, &pre, &post, &pre_flow, ctx);
                Some(r)
            }
            Err((msg, loc)) => {
                let what = match kind {
                    CallKind::Tick => "tick".to_string(),
                    CallKind::Step(m) => format!("step({:?})", m.get_msg_type()),
                    CallKind::Propose(_) => "propose".into(),
                    CallKind::ProposeCc => "propose_conf_change".into(),
                    CallKind::ReadIndex => "read_index".into(),
                    CallKind::Transfer(_) => "transfer_leader".into(),
                    CallKind::Campaign => "campaign".into(),
                    CallKind::Ready => "ready".into(),
                    CallKind::Advance => "advance_append".into(),
                    CallKind::AdvanceAsync => "advance_append_async".into(),
                    CallKind::PersistNotify => "on_persist_ready".into(),
                    CallKind::ApplyTo => "advance_apply_to".into(),
                    CallKind::ApplyConf => "apply_conf_change".into(),
                    CallKind::ReportSnap(..) => "report_snapshot".into(),
                    CallKind::Unreachable(_) => "report_unreachable".into(),
                    CallKind::RequestSnap => "request_snapshot".into(),
                    CallKind::SetCap => "adjust_max_inflight_msgs".into(),
                    CallKind::Fetched => "on_entries_fetched".into(),
                    CallKind::New => "new".into(),
                };
                self.panic_violation(i, &what, &msg, &loc, ctx);
                None
            }
        }
    }

    /// Evaluates has_ready() under the panic guard; false = it panicked (a C20 violation).
    fn has_ready_guarded(&mut self, i: usize, ctx: &mut Ctx) -> bool {
        let r = {
            let rn = &self.nodes[i].live.as_ref().unwrap().rn;
            guarded(|| rn.has_ready())
        };
        match r {
            Ok(_) => true,
            Err((msg, loc)) => {
                self.panic_violation(i, "has_ready", &msg, &loc, ctx);
                false
            }
        }
    }

    // ------------------------------------------------------------------ network

    /// Puts messages of node i on the network (release point: C06 release monitor).
    pub fn release(&mut self, i: usize, msgs: Vec<Message>, ctx: &mut Ctx) {
        for m in msgs {
            self.on_release(i, &m, ctx);
            let to = m.to as usize;
            if to == 0 || to > self.n() {
                continue; // addressed outside the world
            }
            let q = self.net.entry((i as u8 + 1, m.to as u8)).or_default();
            if q.len() >= self.scen.max_link {
                ctx.stat(Stat::LinkCapHit);
                continue;
            }
            q.push(m);
        }
    }

    fn fault_ok(&self, from: u8, to: u8, m: &Message) -> bool {
        let s = self.scen;
        (s.fault_links.is_empty() || s.fault_links.contains(&(from, to)))
            && (s.fault_types.is_empty() || s.fault_types.contains(&(m.get_msg_type() as u8)))
    }

    // ------------------------------------------------------------------ enabledness

    pub fn enabled(&self, out: &mut Vec<Action>) {
        out.clear();
        let s = self.scen;
        let c = &s.caps;
        let u = &self.used;
        let n = self.n();

        // Ready rule: a node with a pending Ready that has taken its quota of inputs
        // must process it before anything else happens to it; in eager mode
        // (inputs_per_ready == 1) the lowest such node goes first globally.
        let mut forced: Option<usize> = None;
        for i in 0..n {
            if let Some(l) = self.live(i) {
                if l.rn.has_ready() && l.inputs >= s.inputs_per_ready {
                    forced = Some(i);
                    break;
                }
            }
        }
        let eager = s.inputs_per_ready <= 1;
        let lock = &s.lock_majority;
        if !lock.is_empty() && forced.is_none() {
            if self.lock_phase {
                out.push(Action::LockDeliver);
            } else if u.ticks < c.ticks {
                out.push(Action::LockTick);
            }
        }
        for i in 0..n {
            let id = i as u8 + 1;
            let node = &self.nodes[i];
            let Some(l) = node.live.as_ref() else {
                if (node.created || !self.cfg(i).boot) && !s.down_forever.contains(&id) {
                    if forced.is_none() || !eager {
                        out.push(Action::Restart(id));
                    }
                }
                continue;
            };
            if eager {
                if let Some(f) = forced {
                    if f != i {
                        continue;
                    }
                }
            }
            let r = &l.rn.raft;
            let is_forced = forced == Some(i) || (l.rn.has_ready() && l.inputs >= s.inputs_per_ready);
            if l.rn.has_ready() {
                match self.cfg(i).mode {
                    AppMode::Sync => {
                        out.push(Action::Ready(id, Cut::None));
                        if s.crashable.contains(&id) && u.cuts < c.cuts {
                            // writes of this Ready: snapshot, entries, hard state; all of them
                            // durable with nothing further sent is the AfterFsync cut
                            let rl = &r.raft_log;
                            let total = l.unsynced.len()
                                + rl.unstable.snapshot.is_some() as usize
                                + !rl.unstable.entries.is_empty() as usize
                                + (r.hard_state() != l.rn.verif_view().prev_hs) as usize;
                            for k in 0..total.min(5) {
                                out.push(Action::Ready(id, Cut::Writes(k as u8)));
                            }
                            out.push(Action::Ready(id, Cut::AfterFsync));
                            out.push(Action::Ready(id, Cut::AfterSend));
                        }
                    }
                    AppMode::Async => out.push(Action::ReadyAsync(id)),
                }
            }
            if self.cfg(i).mode == AppMode::Async {
                if self.cfg(i).loose_async {
                    let synced = l.held.iter().take_while(|h| h.synced).count();
                    for k in 1..=synced {
                        out.push(Action::Persist(id, k as u8));
                    }
                    for k in 1..=(l.held.len() - synced) {
                        out.push(Action::Fsync(id, k as u8));
                    }
                } else {
                    for k in 1..=l.held.len() {
                        out.push(Action::Persist(id, k as u8));
                    }
                }
            }
            if !l.to_apply.is_empty() || l.snap_ack_pending {
                out.push(Action::ApplyNext(id));
            }
            if s.crashable.contains(&id) && u.crashes < c.crashes {
                let m = l.unsynced.len().min(4);
                for k in 0..=m {
                    out.push(Action::Crash(id, k as u8));
                }
            }
            if is_forced {
                continue;
            }
            // --- inputs
            let lazy_extra = l.rn.has_ready();
            if lazy_extra && u.lazy >= c.lazy {
                // taking another input while a Ready is pending is a budgeted deviation
                continue;
            }
            let vw = r.verif_view();
            if lock.contains(&id) {
                // lock-step nodes are ticked by LockTick only and take no client input, except
                // (the -req scenarios) a follower's application asking for a snapshot
                if r.state != StateRole::Leader && u.reqsnaps < c.reqsnaps && r.leader_id != 0 && !self.lock_phase {
                    out.push(Action::RequestSnap(id));
                }
                continue;
            }
            if r.state != StateRole::Leader {
                let can_time_out = s.timeoutable.contains(&id) && r.term < s.max_term;
                if vw.promotable {
                    if can_time_out && u.timeouts < c.timeouts {
                        out.push(Action::Timeout(id));
                    }
                    if s.tickable.contains(&id) && u.ticks < c.ticks {
                        // a tick that would start an election needs the same guards as Timeout
                        let would_campaign = r.election_elapsed + 1 >= vw.randomized_election_timeout;
                        if !would_campaign || (can_time_out && u.timeouts < c.timeouts) {
                            out.push(Action::Tick(id));
                        }
                    }
                } else if s.tickable.contains(&id)
                    && u.ticks < c.ticks
                    && r.election_elapsed < vw.randomized_election_timeout
                {
                    out.push(Action::Tick(id));
                }
                if can_time_out && u.campaigns < c.campaigns {
                    out.push(Action::Campaign(id));
                }
            } else if u.beats < c.beats {
                out.push(Action::Tick(id));
            }
            if s.clients_at.contains(&id) {
                if u.props < c.props && r.raft_log.last_index() < s.max_index {
                    for (k, _) in s.prop_sizes.iter().enumerate() {
                        out.push(Action::Propose(id, k as u8));
                    }
                }
                if u.ccs < c.ccs && r.raft_log.last_index() < s.max_index {
                    for k in 0..s.cc_menu.len() {
                        out.push(Action::ProposeCc(id, k as u8));
                    }
                    if s.mix_proposals && u.props < c.props && r.raft_log.last_index() + 1 < s.max_index {
                        for k in 0..s.cc_menu.len() {
                            out.push(Action::ProposeMix(id, k as u8));
                        }
                    }
                }
                if u.reads < c.reads {
                    out.push(Action::ReadIndex(id));
                }
                if u.transfers < c.transfers {
                    for t in &s.transfer_targets {
                        out.push(Action::Transfer(id, *t));
                    }
                }
            }
            if u.compacts < c.compacts
                && l.rn.store().app.applied > l.rn.store().snap_index + s.mem_compact as u64
                && l.rn.raft.raft_log.unstable.snapshot.is_none()
            {
                out.push(Action::Compact(id));
            }
            if r.state == StateRole::Leader {
                for to in &l.snap_out {
                    out.push(Action::ReportSnap(id, *to as u8, true));
                    if u.snapfail < c.snapfail {
                        out.push(Action::ReportSnap(id, *to as u8, false));
                    }
                }
                if u.unreach < c.unreach {
                    for (pid, _) in r.prs().iter() {
                        // (a no-op for a probing follower; Replicate falls back to Probe;
                        // a pending snapshot must stay pending)
                        if *pid != r.id && r.prs().get(*pid).unwrap().state != ProgressState::Probe {
                            out.push(Action::Unreachable(id, *pid as u8));
                        }
                    }
                }
                if u.snapbusy < c.snapbusy && !l.rn.store().snap_busy_once.get() && l.rn.store().first() > 1 {
                    out.push(Action::ArmSnapBusy(id));
                }
                if u.setcaps < c.setcaps {
                    for (pid, _) in r.prs().iter() {
                        if *pid != r.id {
                            for v in &s.setcap_values {
                                out.push(Action::SetCap(id, *pid as u8, *v));
                            }
                        }
                    }
                }
                let fetch_pending = l.rn.store().fetch_ctx.get().is_some();
                if u.fetches < c.fetches && !fetch_pending && !l.rn.store().log_unavailable_once.get() {
                    out.push(Action::ArmFetch(id));
                }
                if fetch_pending {
                    out.push(Action::Fetched(id));
                }
            } else if u.reqsnaps < c.reqsnaps && r.leader_id != 0 {
                out.push(Action::RequestSnap(id));
            }
        }
        // --- network
        for ((from, to), q) in &self.net {
            if q.is_empty() {
                continue;
            }
            if lock.contains(from) && lock.contains(to) {
                continue; // delivered by LockDeliver
            }
            let ti = *to as usize - 1;
            let Some(l) = self.live(ti) else {
                // messages to a crashed node wait; they may be dropped on budget
                if u.drops < c.drops && self.fault_ok(*from, *to, &q[0]) {
                    out.push(Action::Drop(*from, *to));
                }
                continue;
            };
            if eager {
                if forced.is_some() {
                    continue;
                }
            } else if l.rn.has_ready() && (l.inputs >= s.inputs_per_ready || u.lazy >= c.lazy) {
                continue;
            }
            out.push(Action::Deliver(*from, *to));
            if u.drops < c.drops && self.fault_ok(*from, *to, &q[0]) {
                out.push(Action::Drop(*from, *to));
            }
            if u.dups < c.dups && self.fault_ok(*from, *to, &q[0]) {
                out.push(Action::Dup(*from, *to));
            }
            if u.reorders < c.reorders {
                for k in 1..q.len().min(3) {
                    if self.fault_ok(*from, *to, &q[k]) && q[k] != q[0] {
                        out.push(Action::DeliverK(*from, *to, k as u8));
                    }
                }
            }
        }
        out.sort();
        out.dedup();
    }

    // ------------------------------------------------------------------ execution

    fn count_input(&mut self, i: usize) {
        let lazy;
        {
            let l = self.nodes[i].live.as_mut().unwrap();
            lazy = l.rn.has_ready();
            l.inputs = l.inputs.saturating_add(1);
        }
        if lazy && !self.in_prefix {
            self.used.lazy += 1;
        }
    }

    /// Applies an action. Returns false if the branch is dead (a library call panicked).
    ///
    /// Eager application (inputs_per_ready == 1, synchronous node): the Ready round follows
    /// its input at once, in the same transition, unless a crash cut could still be placed
    /// inside that round (then the Ready stays a separate, forced action so that every cut
    /// point is a choice of the explorer).
    pub fn apply(&mut self, a: &Action, ctx: &mut Ctx) -> bool {
        if !self.apply2(a, ctx) {
            return false;
        }
        if !self.in_prefix && !self.scen.lock_majority.is_empty() {
            self.check_lease(a, ctx);
        }
        true
    }

    /// C16(c): the lock-step leader keeps leading and the majority keeps its term.
    fn check_lease(&mut self, a: &Action, ctx: &mut Ctx) {
        let ids = &self.scen.lock_majority;
        for (k, id) in ids.iter().enumerate() {
            let Some(l) = self.live(*id as usize - 1) else { continue };
            let r = &l.rn.raft;
            // circumstance of recorded finding F8: the term the majority was pushed to is one a
            // node campaigns for after counting a pre-vote grant of an earlier pre-campaign
            let stale = self.ghost.stale_grant_terms.iter().any(|t| *t > self.lock_term && *t <= r.term);
            if r.term != self.lock_term {
                ctx.v(
                    "C16",
                    if stale {
                        "a member of the heartbeating majority changed its term [after a pre-vote grant of an earlier pre-campaign of the same term was counted]"
                    } else {
                        "a member of the heartbeating majority changed its term"
                    },
                    format!("node {} term {} -> {} after {:?}", id, self.lock_term, r.term, a),
                );
            }
            if k == 0 && r.state != StateRole::Leader {
                ctx.v(
                    "C16",
                    if stale {
                        "the heartbeating leader stepped down [after a pre-vote grant of an earlier pre-campaign of the same term was counted]"
                    } else {
                        "the heartbeating leader stepped down"
                    },
                    format!("node {} is {:?} at term {} after {:?}", id, r.state, r.term, a),
                );
            }
        }
    }

    pub fn end_prefix(&mut self) {
        self.in_prefix = false;
        self.used = Counts::default();
        if let Some(id) = self.scen.lock_majority.first() {
            self.lock_term = self.live(*id as usize - 1).map(|l| l.rn.raft.term).unwrap_or(0);
        }
    }

    fn apply2(&mut self, a: &Action, ctx: &mut Ctx) -> bool {
        if !self.apply_inner(a, ctx) {
            return false;
        }
        if self.in_prefix || self.scen.inputs_per_ready > 1 {
            return true;
        }
        let target = match *a {
            Action::Tick(i)
            | Action::Timeout(i)
            | Action::Propose(i, _)
            | Action::ProposeCc(i, _)
            | Action::ProposeMix(i, _)
            | Action::ReadIndex(i)
            | Action::Transfer(i, _)
            | Action::Campaign(i)
            | Action::ReportSnap(i, _, _)
            | Action::Unreachable(i, _)
            | Action::RequestSnap(i)
            | Action::SetCap(i, _, _)
            | Action::Fetched(i)
            | Action::ArmSnapBusy(i)
            | Action::ApplyNext(i)
            | Action::Compact(i)
            | Action::Ready(i, Cut::None) => i,
            Action::Deliver(_, t) | Action::DeliverK(_, t, _) | Action::Dup(_, t) => t,
            _ => return true,
        };
        let i = target as usize - 1;
        if self.cfg(i).mode != AppMode::Sync {
            return true;
        }
        let cuts_possible = self.scen.crashable.contains(&target) && self.used.cuts < self.scen.caps.cuts;
        if cuts_possible {
            return true;
        }
        let mut rounds = 0;
        while self.live(i).map(|l| l.rn.has_ready()).unwrap_or(false) {
            if !self.ready_sync(i, Cut::None, ctx) {
                return false;
            }
            rounds += 1;
            if rounds > 64 {
                ctx.v("C10", "Ready rounds do not reach quiescence", format!("node {} still has_ready after 64 rounds", i + 1));
                break;
            }
        }
        true
    }

    fn apply_inner(&mut self, a: &Action, ctx: &mut Ctx) -> bool {
        let charge = !self.in_prefix;
        match *a {
            Action::Tick(id) => {
                let i = id as usize - 1;
                let leader = self.live(i).unwrap().rn.raft.state == StateRole::Leader;
                if charge {
                    if leader {
                        self.used.beats += 1
                    } else {
                        self.used.ticks += 1;
                        let l = self.live(i).unwrap();
                        let vw = l.rn.raft.verif_view();
                        if vw.promotable && l.rn.raft.election_elapsed + 1 >= vw.randomized_election_timeout {
                            self.used.timeouts += 1;
                        }
                    }
                }
                self.count_input(i);
                self.tick_once(i, ctx)
            }
            Action::Timeout(id) => {
                let i = id as usize - 1;
                if charge {
                    self.used.timeouts += 1;
                }
                self.count_input(i);
                let max = 2 * self.cfg(i).max_election_tick + 2;
                for _ in 0..max {
                    let before = self.live(i).unwrap().rn.raft.election_elapsed;
                    if !self.tick_once(i, ctx) {
                        return false;
                    }
                    let l = self.live(i).unwrap();
                    // the tick wrapped the timer => MsgHup was issued
                    if l.rn.raft.election_elapsed <= before || l.rn.raft.state == StateRole::Leader {
                        break;
                    }
                }
                true
            }
            Action::Deliver(from, to) => {
                let m = {
                    let q = self.net.get_mut(&(from, to)).unwrap();
                    let m = q.remove(0);
                    if q.is_empty() {
                        self.net.remove(&(from, to));
                    }
                    m
                };
                self.deliver(to as usize - 1, m, ctx)
            }
            Action::DeliverK(from, to, k) => {
                if charge {
                    self.used.reorders += 1;
                }
                let m = {
                    let q = self.net.get_mut(&(from, to)).unwrap();
                    q.remove(k as usize)
                };
                self.deliver(to as usize - 1, m, ctx)
            }
            Action::Dup(from, to) => {
                // the network duplicates the head message: one copy is delivered now, the other
                // stays in flight behind everything already queued on the link (a late duplicate;
                // an immediate one when the link holds nothing else)
                if charge {
                    self.used.dups += 1;
                }
                let m = {
                    let q = self.net.get_mut(&(from, to)).unwrap();
                    let m = q.remove(0);
                    q.push(m.clone());
                    m
                };
                self.deliver(to as usize - 1, m, ctx)
            }
            Action::Drop(from, to) => {
                if charge {
                    self.used.drops += 1;
                }
                let q = self.net.get_mut(&(from, to)).unwrap();
                q.remove(0);
                if q.is_empty() {
                    self.net.remove(&(from, to));
                }
                true
            }
            Action::Propose(id, k) => {
                let i = id as usize - 1;
                if charge {
                    self.used.props += 1;
                }
                self.count_input(i);
                let size = self.scen.prop_sizes[k as usize];
                let tag = self.next_payload;
                self.next_payload += 1;
                let mut data = vec![0u8; size];
                // unique payload: tag in the leading bytes (size 0 => empty payload, tag in context)
                let tb = tag.to_le_bytes();
                for (j, b) in data.iter_mut().enumerate() {
                    *b = if j < 4 { tb[j] } else { 0xa5 };
                }
                let ctxb: Vec<u8> = if size < 4 { tb.to_vec() } else { vec![] };
                let r = self.call(i, CallKind::Propose(size), ctx, |rn| rn.propose(ctxb, data));
                r.is_some()
            }
            Action::ProposeCc(id, k) => {
                let i = id as usize - 1;
                if charge {
                    self.used.ccs += 1;
                }
                self.count_input(i);
                let spec = self.scen.cc_menu[k as usize].clone();
                let (v1, v2) = cc_to_v2(&spec);
                let tag = self.next_payload;
                self.next_payload += 1;
                let ctxb = tag.to_le_bytes().to_vec();
                let (ty, bytes) = match &v1 {
                    Some(cc) => (EntryType::EntryConfChange, cc.write_to_bytes().unwrap()),
                    None => (EntryType::EntryConfChangeV2, v2.write_to_bytes().unwrap()),
                };
                let (was_leader, last) = {
                    let r = &self.live(i).unwrap().rn.raft;
                    (r.state == StateRole::Leader, r.raft_log.last_index())
                };
                let r = self.call(i, CallKind::ProposeCc, ctx, |rn| match v1 {
                    Some(cc) => rn.propose_conf_change(ctxb, cc),
                    None => rn.propose_conf_change(ctxb, v2),
                });
                if r.is_some() && was_leader && self.live(i).unwrap().rn.raft.raft_log.last_index() > last {
                    self.check_cc_identical(i, last + 1, ty, &bytes, ctx);
                }
                r.is_some()
            }
            Action::ProposeMix(id, k) => {
                let i = id as usize - 1;
                if charge {
                    self.used.ccs += 1;
                    self.used.props += 1;
                }
                self.count_input(i);
                let spec = self.scen.cc_menu[k as usize].clone();
                let (v1, v2) = cc_to_v2(&spec);
                let tag = self.next_payload;
                self.next_payload += 2;
                let mut e1 = Entry::default();
                e1.data = tag.to_le_bytes().to_vec().into();
                let mut e2 = Entry::default();
                match &v1 {
                    Some(cc) => {
                        e2.set_entry_type(EntryType::EntryConfChange);
                        e2.data = cc.write_to_bytes().unwrap().into();
                    }
                    None => {
                        e2.set_entry_type(EntryType::EntryConfChangeV2);
                        e2.data = v2.write_to_bytes().unwrap().into();
                    }
                }
                e2.context = (tag + 1).to_le_bytes().to_vec().into();
                let mut m = Message::default();
                m.set_msg_type(MessageType::MsgPropose);
                m.from = id as u64;
                m.set_entries(vec![e1, e2].into());
                let r = self.call(i, CallKind::ProposeCc, ctx, |rn| rn.step(m));
                r.is_some()
            }
            Action::ReadIndex(id) => {
                let i = id as usize - 1;
                if charge {
                    self.used.reads += 1;
                }
                self.count_input(i);
                let c = self.next_read;
                self.next_read += 1;
                self.ghost.reads.insert(c, (id, self.ghost.max_commit_ever));
                // (-samectx: the first two requests share their context bytes, later ones are unique)
                let bytes = if self.scen.same_read_ctx && self.ghost.reads.len() <= 2 {
                    vec![0xaa]
                } else if self.scen.empty_first_ctx && c == 1 {
                    vec![]
                } else {
                    c.to_le_bytes().to_vec()
                };
                let r = self.call(i, CallKind::ReadIndex, ctx, |rn| rn.read_index(bytes));
                r.is_some()
            }
            Action::Transfer(id, t) => {
                let i = id as usize - 1;
                if charge {
                    self.used.transfers += 1;
                }
                self.count_input(i);
                let r = self.call(i, CallKind::Transfer(t as u64), ctx, |rn| {
                    rn.transfer_leader(t as u64)
                });
                r.is_some()
            }
            Action::Campaign(id) => {
                let i = id as usize - 1;
                if charge {
                    self.used.campaigns += 1;
                }
                self.count_input(i);
                let r = self.call(i, CallKind::Campaign, ctx, |rn| rn.campaign());
                r.is_some()
            }
            Action::Ready(id, cut) => {
                if charge && cut != Cut::None {
                    self.used.cuts += 1;
                }
                self.ready_sync(id as usize - 1, cut, ctx)
            }
            Action::ReadyAsync(id) => self.ready_async(id as usize - 1, ctx),
            Action::Persist(id, k) => self.persist_async(id as usize - 1, k as usize, ctx),
            Action::Fsync(id, k) => {
                let i = id as usize - 1;
                let (number, msgs) = {
                    let l = self.nodes[i].live.as_mut().unwrap();
                    let first = l.held.iter().take_while(|h| h.synced).count();
                    let mut msgs = vec![];
                    let mut number = 0;
                    for h in l.held.iter_mut().skip(first).take(k as usize) {
                        h.synced = true;
                        number = h.number;
                        msgs.append(&mut h.msgs);
                    }
                    (number, msgs)
                };
                self.fsync(i, number);
                self.release(i, msgs, ctx);
                true
            }
            Action::ApplyNext(id) => {
                let i = id as usize - 1;
                let pending_snap = {
                    let l = self.nodes[i].live.as_mut().unwrap();
                    std::mem::replace(&mut l.snap_ack_pending, false)
                };
                if !pending_snap {
                    let e = self.nodes[i].live.as_mut().unwrap().to_apply.pop_front().unwrap();
                    if !self.apply_entries(i, vec![e], ctx) {
                        return false;
                    }
                }
                let applied = self.live(i).unwrap().rn.store().app.applied;
                self.call(i, CallKind::ApplyTo, ctx, |rn| rn.advance_apply_to(applied))
                    .is_some()
            }
            Action::Crash(id, k) => {
                if charge {
                    self.used.crashes += 1;
                }
                self.crash(id as usize - 1, k as usize, ctx);
                true
            }
            Action::Restart(id) => {
                ctx.stat(Stat::Restarts);
                self.start_node(id as usize - 1, ctx)
            }
            Action::Compact(id) => {
                let i = id as usize - 1;
                if charge {
                    self.used.compacts += 1;
                }
                let applied = self.live(i).unwrap().rn.store().app.applied;
                if self.scen.mem_compact {
                    self.write(i, 0, WriteOp::CompactKeep(applied));
                } else {
                    self.write(i, 0, WriteOp::Compact(applied));
                }
                true
            }
            Action::ReportSnap(id, to, ok) => {
                let i = id as usize - 1;
                if charge && !ok {
                    self.used.snapfail += 1;
                }
                self.count_input(i);
                {
                    let l = self.nodes[i].live.as_mut().unwrap();
                    l.snap_out.retain(|x| *x != to as u64);
                }
                let st = if ok {
                    SnapshotStatus::Finish
                } else {
                    SnapshotStatus::Failure
                };
                self.call(i, CallKind::ReportSnap(to as u64, ok), ctx, |rn| {
                    rn.report_snapshot(to as u64, st)
                })
                .is_some()
            }
            Action::Unreachable(id, to) => {
                let i = id as usize - 1;
                if charge {
                    self.used.unreach += 1;
                }
                self.count_input(i);
                self.call(i, CallKind::Unreachable(to as u64), ctx, |rn| {
                    rn.report_unreachable(to as u64)
                })
                .is_some()
            }
            Action::RequestSnap(id) => {
                let i = id as usize - 1;
                if charge {
                    self.used.reqsnaps += 1;
                }
                self.count_input(i);
                self.call(i, CallKind::RequestSnap, ctx, |rn| {
                    let _ = rn.request_snapshot();
                })
                .is_some()
            }
            Action::SetCap(id, to, v) => {
                let i = id as usize - 1;
                if charge {
                    self.used.setcaps += 1;
                }
                self.note_setcap(i, to as u64, v as usize);
                self.call(i, CallKind::SetCap, ctx, |rn| {
                    rn.raft.adjust_max_inflight_msgs(to as u64, v as usize)
                })
                .is_some()
            }
            Action::ArmSnapBusy(id) => {
                let i = id as usize - 1;
                if charge {
                    self.used.snapbusy += 1;
                }
                let l = self.nodes[i].live.as_mut().unwrap();
                l.rn.store().snap_busy_once.set(true);
                true
            }
            Action::ArmFetch(id) => {
                let i = id as usize - 1;
                if charge {
                    self.used.fetches += 1;
                }
                let l = self.nodes[i].live.as_mut().unwrap();
                l.rn.store().log_unavailable_once.set(true);
                true
            }
            Action::Fetched(id) => {
                let i = id as usize - 1;
                self.count_input(i);
                let c = {
                    let l = self.nodes[i].live.as_mut().unwrap();
                    l.rn.store().fetch_ctx.take()
                };
                match c {
                    Some(c) => self
                        .call(i, CallKind::Fetched, ctx, |rn| rn.on_entries_fetched(c))
                        .is_some(),
                    None => true,
                }
            }
            Action::LockTick => {
                if charge {
                    self.used.ticks += 1;
                }
                self.lock_phase = true;
                let ids = self.scen.lock_majority.clone();
                for id in ids {
                    let i = id as usize - 1;
                    if self.live(i).is_none() {
                        continue;
                    }
                    if !self.tick_once(i, ctx) {
                        return false;
                    }
                    if self.settle_node(i, ctx).is_none() {
                        return false;
                    }
                }
                true
            }
            Action::LockDeliver => {
                self.lock_phase = false;
                let ids = self.scen.lock_majority.clone();
                for _ in 0..1000 {
                    let mut progressed = false;
                    let keys: Vec<(u8, u8)> = self.net.keys().cloned().collect();
                    for k in keys {
                        if !(ids.contains(&k.0) && ids.contains(&k.1)) || self.live(k.1 as usize - 1).is_none() {
                            continue;
                        }
                        while self.net.contains_key(&k) {
                            progressed = true;
                            if self.scen.lock_snap_lost && self.net[&k][0].get_msg_type() == MessageType::MsgSnapshot {
                                // the snapshot transfer takes for ever: modelled as loss
                                let q = self.net.get_mut(&k).unwrap();
                                q.remove(0);
                                if q.is_empty() {
                                    self.net.remove(&k);
                                }
                                continue;
                            }
                            if !self.apply_inner(&Action::Deliver(k.0, k.1), ctx) {
                                return false;
                            }
                            if self.settle_node(k.1 as usize - 1, ctx).is_none() {
                                return false;
                            }
                        }
                    }
                    if !progressed {
                        break;
                    }
                }
                true
            }
            Action::Settle => self.settle(ctx),
            Action::Settle0(id) => self.settle_node(id as usize - 1, ctx).is_some(),
            Action::Isolate(id) => {
                self.net.retain(|(f, t), _| *f != id && *t != id);
                true
            }
            Action::HoldApply(on) => {
                self.hold_apply = on;
                true
            }
            Action::SetPrio(id, p) => {
                let l = self.nodes[id as usize - 1].live.as_mut().unwrap();
                l.rn.raft.set_priority(p as i64);
                true
            }
            Action::DropAll => {
                self.net.clear();
                true
            }
        }
    }

    fn tick_once(&mut self, i: usize, ctx: &mut Ctx) -> bool {
        // C17: ticks seen by a leader with a pending transfer
        {
            let l = self.nodes[i].live.as_mut().unwrap();
            if let Some((t, n)) = l.xfer {
                l.xfer = Some((t, n + 1));
            }
        }
        self.call(i, CallKind::Tick, ctx, |rn| {
            rn.tick();
        })
        .is_some()
    }

    fn deliver(&mut self, i: usize, m: Message, ctx: &mut Ctx) -> bool {
        self.count_input(i);
        ctx.tr(|| format!("  deliver to {}: {:?}", i + 1, m));
        let r = self.call(i, CallKind::Step(&m), ctx, |rn| rn.step(m.clone()));
        r.is_some()
    }

    /// Application write: applied to the visible store at once, remembered as unsynced.
    pub fn write(&mut self, i: usize, number: u64, op: WriteOp) {
        let l = self.nodes[i].live.as_mut().unwrap();
        l.rn.mut_store().apply_op(&op);
        l.unsynced.push((number, op));
    }

    /// fsync: every unsynced write of Readies with number <= upto (0-numbered writes are
    /// application writes and always go along in order).
    pub fn fsync(&mut self, i: usize, upto: u64) {
        let node = &mut self.nodes[i];
        let l = node.live.as_mut().unwrap();
        let mut k = 0;
        for (n, _) in l.unsynced.iter() {
            if *n > upto {
                break;
            }
            k += 1;
        }
        for (_, op) in l.unsynced.drain(..k) {
            node.disk.apply_op(&op);
        }
    }

    pub fn crash(&mut self, i: usize, k: usize, ctx: &mut Ctx) {
        ctx.stat(Stat::Crashes);
        let node = &mut self.nodes[i];
        let l = node.live.take().unwrap();
        for (_, op) in l.unsynced.iter().take(k) {
            node.disk.apply_op(op);
        }
        let known = l.rn.raft.raft_log.committed;
        let durable = node.disk.hs.commit.max(node.disk.snap_index);
        let lost = node.disk.entries.iter().any(|e| {
            e.index > durable
                && e.index <= known
                && (e.get_entry_type() == EntryType::EntryConfChange || e.get_entry_type() == EntryType::EntryConfChangeV2)
        });
        if lost {
            node.g.lost_cc_commit = node.g.lost_cc_commit.max(known);
        }
    }

    /// The synchronous Ready round of §2.4(2), optionally cut by a crash.
    fn ready_sync(&mut self, i: usize, cut: Cut, ctx: &mut Ctx) -> bool {
        let Some(mut rd) = self.call(i, CallKind::Ready, ctx, |rn| rn.ready()) else {
            return false;
        };
        self.nodes[i].live.as_mut().unwrap().inputs = 0;
        let number = rd.number();
        self.check_ready(i, &rd, ctx);
        // committed entries must already be persisted when ready() hands them out
        self.check_hand_out(i, rd.committed_entries(), ctx);
        let had_snapshot = !rd.snapshot().is_empty();
        // 1. immediate messages
        let imm = rd.take_messages();
        self.release(i, imm, ctx);
        // 2. writes: snapshot, entries, hard state
        let mut ops = vec![];
        if !rd.snapshot().is_empty() {
            ops.push(WriteOp::Snapshot(rd.snapshot().clone()));
        }
        if !rd.entries().is_empty() {
            ops.push(WriteOp::Entries(rd.entries().clone()));
        }
        if let Some(hs) = rd.hs() {
            ops.push(WriteOp::Hs(hs.clone()));
        }
        if let Cut::Writes(k) = cut {
            // crash with the first k unsynced writes durable (older application writes first)
            for op in ops {
                self.write_checked(i, number, op, ctx);
            }
            let total = self.live(i).unwrap().unsynced.len();
            self.crash(i, (k as usize).min(total), ctx);
            return true;
        }
        for op in ops {
            self.write_checked(i, number, op, ctx);
        }
        // "If must_sync is false, an asynchronous write of HardState is permissible before
        // calling advance": such an application skips the fsync here
        let skip_fsync = self.cfg(i).skip_sync_when_allowed && !rd.must_sync();
        if !skip_fsync {
            self.fsync(i, u64::MAX);
        }
        {
            let l = self.nodes[i].live.as_mut().unwrap();
            l.notified = l.rn.store().last();
        }
        if cut == Cut::AfterFsync {
            self.crash(i, usize::MAX, ctx);
            return true;
        }
        // 3. persisted messages
        let pm = rd.take_persisted_messages();
        self.release(i, pm, ctx);
        if cut == Cut::AfterSend {
            self.crash(i, usize::MAX, ctx);
            return true;
        }
        // 4. committed entries
        let ce = rd.take_committed_entries();
        if !self.hand_out(i, ce, false, ctx) {
            return false;
        }
        // 5. advance (messages queued since ready() — e.g. by apply_conf_change — were already
        // seen by the generation monitors; only those created inside advance_append are new)
        let queued_before_advance = self.live(i).unwrap().rn.raft.msgs.len();
        let simple = self.cfg(i).simple_advance && !self.cfg(i).apply_lag;
        let Some(mut light) = self.call(i, CallKind::Advance, ctx, |rn| if simple { rn.advance(rd) } else { rn.advance_append(rd) }) else {
            return false;
        };
        if simple {
            ctx.stat(Stat::SimpleAdvances);
        }
        // 6. light ready
        if let Some(c) = light.commit_index() {
            self.write(i, 0, WriteOp::Commit(c));
            let l = self.nodes[i].live.as_mut().unwrap();
            l.last_hs.commit = c;
        }
        self.check_after_advance(i, ctx);
        let lm = light.take_messages();
        self.on_generated_light(i, &lm[queued_before_advance.min(lm.len())..], ctx);
        self.release(i, lm, ctx);
        let ce = light.take_committed_entries();
        if !self.hand_out(i, ce, true, ctx) {
            return false;
        }
        if simple {
            // everything handed out so far is applied: advance_apply() says so
            if self.call(i, CallKind::ApplyTo, ctx, |rn| rn.advance_apply()).is_none() {
                return false;
            }
        } else if !self.cfg(i).apply_lag {
            let applied = self.live(i).unwrap().rn.store().app.applied;
            if self
                .call(i, CallKind::ApplyTo, ctx, |rn| rn.advance_apply_to(applied))
                .is_none()
            {
                return false;
            }
        } else if had_snapshot {
            self.nodes[i].live.as_mut().unwrap().snap_ack_pending = true;
        }
        self.enable_unp(i, ctx)
    }

    /// Apply-before-persist is a run-time switch: Raft::new (through become_follower) and every
    /// step-down reset it to 0, whatever Config says. The application turns it on when a Ready
    /// round has shown it that the node leads (what the TODO in become_follower describes).
    fn enable_unp(&mut self, i: usize, ctx: &mut Ctx) -> bool {
        let limit = self.cfg(i).max_apply_unpersisted;
        if limit == 0 {
            return true;
        }
        let l = self.nodes[i].live.as_mut().unwrap();
        if l.rn.raft.state == StateRole::Leader && l.rn.raft.raft_log.max_apply_unpersisted_log_limit == 0 {
            l.rn.raft.set_max_apply_unpersisted_log_limit(limit);
            return self.has_ready_guarded(i, ctx);
        }
        true
    }

    fn write_checked(&mut self, i: usize, number: u64, op: WriteOp, ctx: &mut Ctx) {
        if let WriteOp::Snapshot(s) = &op {
            self.on_snapshot_installed(i, s, ctx);
        }
        self.write(i, number, op);
    }

    /// Committed entries handed to the application: cursor model (C07), registry (C01),
    /// then applied at once or queued (apply-lag mode).
    fn hand_out(&mut self, i: usize, ents: Vec<Entry>, check: bool, ctx: &mut Ctx) -> bool {
        if ents.is_empty() {
            return true;
        }
        if check {
            self.check_hand_out(i, &ents, ctx);
        }
        if self.cfg(i).apply_lag {
            let l = self.nodes[i].live.as_mut().unwrap();
            l.to_apply.extend(ents);
            true
        } else {
            self.apply_entries(i, ents, ctx)
        }
    }

    /// The application applies entries: conf changes go through apply_conf_change; the
    /// (applied, conf, sm) triple is written atomically.
    fn apply_entries(&mut self, i: usize, ents: Vec<Entry>, ctx: &mut Ctx) -> bool {
        for e in ents {
            ctx.stat(Stat::EntriesApplied);
            let mut app = self.live(i).unwrap().rn.store().app.clone();
            if e.index != app.applied + 1 {
                ctx.v(
                    "C07",
                    "apply: entry not next after applied",
                    format!("node {} applies index {} after {}", i + 1, e.index, app.applied),
                );
            }
            app.applied = e.index;
            app.sm = sm_fold(app.sm, e.index, edig(&e));
            if let Some(cc) = decode_cc(&e) {
                let r = self.call(i, CallKind::ApplyConf, ctx, |rn| rn.apply_conf_change(&cc));
                match r {
                    None => return false,
                    Some(Ok(cs)) => {
                        ctx.stat(Stat::ConfApplied);
                        app.conf = cs;
                    }
                    Some(Err(_)) => {} // rejected change: configuration unchanged
                }
            }
            if self.cfg(i).split_app_store {
                // the state machine lives in its own store with synchronous writes: its applied
                // index can be ahead of the commit index in the raft store after a crash
                let node = &mut self.nodes[i];
                node.live.as_mut().unwrap().rn.mut_store().apply_op(&WriteOp::Applied(app.clone()));
                node.disk.app = app;
            } else {
                self.write(i, 0, WriteOp::Applied(app));
            }
            self.check_conf_after_apply(i, &e, ctx);
        }
        true
    }

    fn ready_async(&mut self, i: usize, ctx: &mut Ctx) -> bool {
        let Some(mut rd) = self.call(i, CallKind::Ready, ctx, |rn| rn.ready()) else {
            return false;
        };
        self.nodes[i].live.as_mut().unwrap().inputs = 0;
        let number = rd.number();
        self.check_ready(i, &rd, ctx);
        self.check_hand_out(i, rd.committed_entries(), ctx);
        let had_snapshot = !rd.snapshot().is_empty();
        let imm = rd.take_messages();
        self.release(i, imm, ctx);
        if !rd.snapshot().is_empty() {
            self.write_checked(i, number, WriteOp::Snapshot(rd.snapshot().clone()), ctx);
        }
        if !rd.entries().is_empty() {
            self.write(i, number, WriteOp::Entries(rd.entries().clone()));
        }
        if let Some(hs) = rd.hs() {
            self.write(i, number, WriteOp::Hs(hs.clone()));
        }
        let pm = rd.take_persisted_messages();
        let log_last = self.live(i).unwrap().rn.store().last();
        self.nodes[i].live.as_mut().unwrap().held.push(Held {
            number,
            msgs: pm,
            log_last,
            synced: false,
        });
        let ce = rd.take_committed_entries();
        if !self.hand_out(i, ce, false, ctx) {
            return false;
        }
        if self
            .call(i, CallKind::AdvanceAsync, ctx, |rn| rn.advance_append_async(rd))
            .is_none()
        {
            return false;
        }
        if !self.cfg(i).apply_lag {
            let applied = self.live(i).unwrap().rn.store().app.applied;
            if self
                .call(i, CallKind::ApplyTo, ctx, |rn| rn.advance_apply_to(applied))
                .is_none()
            {
                return false;
            }
        } else if had_snapshot {
            self.nodes[i].live.as_mut().unwrap().snap_ack_pending = true;
        }
        self.enable_unp(i, ctx)
    }

    /// async persistence: fsync the first k outstanding Readies, notify, then release.
    pub fn persist_async(&mut self, i: usize, k: usize, ctx: &mut Ctx) -> bool {
        let (number, log_last, msgs) = {
            let l = self.nodes[i].live.as_mut().unwrap();
            let done: Vec<Held> = l.held.drain(..k).collect();
            let number = done.last().unwrap().number;
            let log_last = done.last().unwrap().log_last;
            let msgs: Vec<Message> = done.into_iter().flat_map(|h| h.msgs).collect();
            (number, log_last, msgs)
        };
        self.fsync(i, number);
        self.nodes[i].live.as_mut().unwrap().notified = log_last;
        if self
            .call(i, CallKind::PersistNotify, ctx, |rn| rn.on_persist_ready(number))
            .is_none()
        {
            return false;
        }
        self.release(i, msgs, ctx);
        true
    }

    /// Processes every pending Ready / persistence / apply of node i. Some(progressed) or
    /// None if a call panicked.
    pub fn settle_node(&mut self, i: usize, ctx: &mut Ctx) -> Option<bool> {
        let mut progressed = false;
        for _ in 0..1000 {
            let mut again = false;
            while self.live(i).map(|l| l.rn.has_ready()).unwrap_or(false) {
                again = true;
                let ok = match self.cfg(i).mode {
                    AppMode::Sync => self.ready_sync(i, Cut::None, ctx),
                    AppMode::Async => {
                        if !self.ready_async(i, ctx) {
                            return None;
                        }
                        let k = self.live(i).unwrap().held.len();
                        self.persist_async(i, k, ctx)
                    }
                };
                if !ok {
                    return None;
                }
            }
            if let Some(l) = self.live(i) {
                if !l.held.is_empty() {
                    let k = l.held.len();
                    if !self.persist_async(i, k, ctx) {
                        return None;
                    }
                    again = true;
                }
            }
            while !self.hold_apply && self.live(i).map(|l| !l.to_apply.is_empty() || l.snap_ack_pending).unwrap_or(false) {
                if !self.apply_inner(&Action::ApplyNext(i as u8 + 1), ctx) {
                    return None;
                }
                again = true;
            }
            if !again {
                return Some(progressed);
            }
            progressed = true;
        }
        panic!("settle_node did not reach quiescence");
    }

    /// Prefix helper: deliver everything FIFO and process every Ready until quiescent.
    pub fn settle(&mut self, ctx: &mut Ctx) -> bool {
        for _round in 0..10_000 {
            let mut progressed = false;
            for i in 0..self.n() {
                match self.settle_node(i, ctx) {
                    None => return false,
                    Some(p) => progressed |= p,
                }
            }
            let keys: Vec<(u8, u8)> = self.net.keys().cloned().collect();
            for k in keys {
                if self.live(k.1 as usize - 1).is_none() {
                    continue;
                }
                if self.net.contains_key(&k) {
                    progressed = true;
                    let head_is_snap = self.net[&k][0].get_msg_type() == MessageType::MsgSnapshot;
                    if head_is_snap {
                        self.snap_msgs_delivered += 1;
                        if self.slow_snap > 0 {
                            let q = self.net.get_mut(&k).unwrap();
                            let m = q.remove(0);
                            if q.is_empty() {
                                self.net.remove(&k);
                            }
                            self.slow_lane.push((k.0, k.1, m, self.slow_snap));
                            continue;
                        }
                    }
                    if !self.apply_inner(&Action::Deliver(k.0, k.1), ctx) {
                        return false;
                    }
                }
            }
            if !progressed {
                return true;
            }
        }
        panic!("settle did not reach quiescence");
    }

    /// C10 suffix: one round passes on the slow snapshot channel; snapshots whose time is up
    /// are delivered (to running nodes) and reported as sent successfully.
    pub fn slow_lane_round(&mut self, ctx: &mut Ctx) -> bool {
        let lane = std::mem::take(&mut self.slow_lane);
        for (from, to, m, left) in lane {
            if left > 1 {
                self.slow_lane.push((from, to, m, left - 1));
                continue;
            }
            if self.live(to as usize - 1).is_some() && !self.deliver(to as usize - 1, m, ctx) {
                return false;
            }
            let fi = from as usize - 1;
            let pending = self.live(fi).map(|l| l.snap_out.contains(&(to as u64))).unwrap_or(false);
            if pending && !self.apply_inner(&Action::ReportSnap(from, to, true), ctx) {
                return false;
            }
        }
        true
    }

    // ------------------------------------------------------------------ canonical key

    pub fn key(&self) -> u128 {
        let mut w = W(Vec::with_capacity(1024));
        self.write_key(&mut w);
        w.key()
    }

    pub fn write_key(&self, w: &mut W) {
        for node in &self.nodes {
            w.b(node.created);
            write_store(w, &node.disk);
            w.u64(node.g.max_term_told);
            w.u64(node.g.lost_cc_commit);
            w.u64(node.g.pre_round as u64);
            w.us(node.g.votes.len());
            for (t, c) in &node.g.votes {
                w.u64(*t);
                w.u64(*c);
            }
            w.us(node.g.acked.len());
            for (a, b, c) in &node.g.acked {
                w.u64(*a);
                w.u64(*b);
                w.u64(*c);
            }
            match &node.live {
                None => w.u8(0),
                Some(l) => {
                    w.u8(1);
                    write_live(w, l);
                }
            }
        }
        w.us(self.net.len());
        for ((f, t), q) in &self.net {
            w.u8(*f);
            w.u8(*t);
            w.us(q.len());
            for m in q {
                w.msg(m);
            }
        }
        let g = &self.ghost;
        w.us(g.cl.len());
        for (i, c) in g.cl.iter().enumerate() {
            match c {
                None => w.u8(0),
                Some((t, d)) => {
                    w.u8(1);
                    w.u64(*t);
                    w.u64(*d);
                    w.u64(g.commit_term_of[i]);
                }
            }
        }
        for (t, l) in &g.leader_of {
            w.u64(*t);
            w.u64(*l);
            w.b(g.leader_volatile.contains(t));
            w.b(g.leader_torn.contains(t));
        }
        w.us(g.pre_grants.len());
        for (a, b, c, d) in &g.pre_grants {
            w.u64(*a);
            w.u64(*b);
            w.u64(*c);
            w.u64(*d as u64);
        }
        for t in &g.stale_grant_terms {
            w.u64(*t);
        }
        w.u8(0xfe);
        w.u64(g.max_commit_ever);
        w.u64(g.max_leader_commit);
        w.u64(g.cl_by_leader);
        for (c, (n, gg)) in &g.reads {
            w.u64(*c as u64);
            w.u8(*n);
            w.u64(*gg);
        }
        w.u8(0xfd);
        self.used.write(w);
        w.u64(self.next_payload as u64);
        w.u64(self.next_read as u64);
        w.b(self.lock_phase);
    }
}

pub fn write_store(w: &mut W, s: &Store) {
    w.hs(&s.hs);
    w.u64(s.snap_index);
    w.u64(s.snap_term);
    w.b(s.term_lost);
    w.us(s.entries.len());
    for e in &s.entries {
        w.entry(e);
    }
    w.u64(s.app.applied);
    w.cs(&s.app.conf);
    w.u64(s.app.sm);
    w.b(s.log_unavailable_once.get());
    w.b(s.snap_busy_once.get());
    w.b(s.fetch_ctx.get().is_some());
}

fn write_op(w: &mut W, op: &WriteOp) {
    match op {
        WriteOp::Snapshot(s) => {
            w.u8(1);
            w.snap(s)
        }
        WriteOp::Entries(es) => {
            w.u8(2);
            w.us(es.len());
            for e in es {
                w.entry(e)
            }
        }
        WriteOp::Hs(h) => {
            w.u8(3);
            w.hs(h)
        }
        WriteOp::Commit(c) => {
            w.u8(4);
            w.u64(*c)
        }
        WriteOp::Applied(a) => {
            w.u8(5);
            w.u64(a.applied);
            w.cs(&a.conf);
            w.u64(a.sm)
        }
        WriteOp::Compact(c) => {
            w.u8(6);
            w.u64(*c)
        }
        WriteOp::CompactKeep(c) => {
            w.u8(7);
            w.u64(*c)
        }
    }
}

pub fn write_rn(w: &mut W, rn: &Rn) {
    let r = &rn.raft;
    let v = rn.verif_view();
    let rv = r.verif_view();
    // RawNode bookkeeping; Ready numbers relative to max_number
    w.u64(v.prev_ss.0);
    w.u8(v.prev_ss.1 as u8);
    w.hs(&v.prev_hs);
    w.us(v.records.len());
    for (n, le, sn, pc) in &v.records {
        w.u64(v.max_number - n);
        w.b(*pc);
        match le {
            None => w.u8(0),
            Some((a, b)) => {
                w.u8(1);
                w.u64(*a);
                w.u64(*b)
            }
        }
        match sn {
            None => w.u8(0),
            Some((a, b)) => {
                w.u8(1);
                w.u64(*a);
                w.u64(*b)
            }
        }
    }
    w.u64(v.commit_since_index);
    // Raft core
    w.u64(r.term);
    w.u64(r.vote);
    w.us(r.read_states.len());
    for rs in &r.read_states {
        w.u64(rs.index);
        w.bytes(&rs.request_ctx);
    }
    let rl = &r.raft_log;
    w.u64(rl.committed);
    w.u64(rl.persisted);
    w.u64(rl.applied);
    w.u64(rl.max_apply_unpersisted_log_limit);
    match &rl.unstable.snapshot {
        None => w.u8(0),
        Some(s) => {
            w.u8(1);
            w.snap(s)
        }
    }
    w.u64(rl.unstable.offset);
    w.us(rl.unstable.entries.len());
    for e in &rl.unstable.entries {
        w.entry(e);
    }
    write_store(w, &rl.store);
    w.u64(r.pending_request_snapshot);
    w.u8(r.state as u8);
    w.b(rv.promotable);
    w.u64(r.leader_id);
    w.u64(r.lead_transferee.unwrap_or(0));
    w.u64(r.pending_conf_index);
    // read_only
    w.us(r.read_only.read_index_queue.len());
    for c in &r.read_only.read_index_queue {
        w.bytes(c);
        if let Some(st) = r.read_only.pending_read_index.get(c) {
            w.u64(st.index);
            w.msg(&st.req);
            let acks: Vec<u64> = st.acks.iter().cloned().collect();
            w.ids(&acks);
        }
    }
    w.us(r.read_only.pending_read_index.len());
    w.us(r.election_elapsed);
    w.us(rv.heartbeat_elapsed);
    w.us(rv.randomized_election_timeout);
    w.b(r.check_quorum);
    w.b(r.pre_vote);
    w.b(rv.skip_bcast_commit);
    w.b(rv.batch_append);
    w.u64(r.priority as u64);
    w.us(rv.uncommitted_size);
    w.u64(rv.last_log_tail_index);
    w.us(r.msgs.len());
    for m in &r.msgs {
        w.msg(m);
    }
    // progress tracker, sorted
    let prs = r.prs();
    let mut ids: Vec<u64> = prs.iter().map(|(id, _)| *id).collect();
    ids.sort_unstable();
    w.us(ids.len());
    for id in ids {
        let p = prs.get(id).unwrap();
        w.u64(id);
        w.u64(p.matched);
        w.u64(p.next_idx);
        w.u8(p.state as u8);
        w.b(p.paused);
        w.u64(p.pending_snapshot);
        w.u64(p.pending_request_snapshot);
        w.b(p.recent_active);
        let (st, cnt, cap, inc, win) = p.ins.verif_view();
        w.us(st);
        w.us(cnt);
        w.us(cap);
        w.u64(inc.map(|x| x as u64 + 1).unwrap_or(0));
        for x in win {
            w.u64(x);
        }
        w.u64(p.commit_group_id);
        w.u64(p.committed_index);
    }
    let conf = prs.conf();
    let cs = conf.to_conf_state();
    w.cs(&cs);
    let mut votes: Vec<(u64, bool)> = prs.votes().iter().map(|(k, v)| (*k, *v)).collect();
    votes.sort_unstable();
    w.us(votes.len());
    for (k, v) in votes {
        w.u64(k);
        w.b(v);
    }
    w.b(prs.group_commit());
}

pub fn rn_key(rn: &Rn) -> u128 {
    let mut w = W(Vec::with_capacity(512));
    write_rn(&mut w, rn);
    w.key()
}

fn write_live(w: &mut W, l: &Live) {
    write_rn(w, &l.rn);
    let maxn = l.rn.verif_view().max_number;
    w.us(l.unsynced.len());
    for (n, op) in &l.unsynced {
        w.u64(if *n == 0 { 0 } else { maxn - n + 1 });
        write_op(w, op);
    }
    w.us(l.held.len());
    for h in &l.held {
        w.u64(maxn - h.number);
        w.b(h.synced);
        w.u64(h.log_last);
        w.us(h.msgs.len());
        for m in &h.msgs {
            w.msg(m);
        }
    }
    w.us(l.to_apply.len());
    for e in &l.to_apply {
        w.entry(e);
    }
    w.u8(l.inputs);
    w.u64(l.cursor);
    w.hs(&l.last_hs);
    w.u64(l.notified);
    w.u64(l.u_bytes);
    w.u64(l.lead_term);
    w.u64(l.lead_tail);
    w.us(l.flow.len());
    for (id, f) in &l.flow {
        w.u64(*id);
        w.us(f.window.len());
        for x in &f.window {
            w.u64(*x);
        }
        w.us(f.bound);
        w.b(f.probe_out);
        w.u64(f.acked);
    }
    let mut so = l.snap_out.clone();
    so.sort_unstable();
    w.ids(&so);
    w.us(l.snap_idx.len());
    for (k, v) in &l.snap_idx {
        w.u64(*k);
        w.u64(*v);
    }
    match l.xfer {
        None => w.u8(0),
        Some((t, n)) => {
            w.u8(1);
            w.u64(t);
            w.u64(n as u64)
        }
    }
    w.ids(&l.prevote_grants);
    w.u64(l.prevote_term);
    w.b(l.snap_ack_pending);
    w.us(l.ack_terms.len());
    for (a, b, c) in &l.ack_terms {
        w.u64(*a);
        w.u64(*b);
        w.u64(*c);
    }
}

pub fn role_name(r: StateRole) -> &'static str {
    match r {
        StateRole::Follower => "F",
        StateRole::Candidate => "C",
        StateRole::Leader => "L",
        StateRole::PreCandidate => "P",
    }
}

impl World {
    pub fn describe(&self) -> String {
        let mut s = String::new();
        for (i, n) in self.nodes.iter().enumerate() {
            match &n.live {
                None => s.push_str(&format!(
                    "  n{}: DOWN disk[hs=({},{},{}) snap={} last={} applied={}]\n",
                    i + 1,
                    n.disk.hs.term,
                    n.disk.hs.vote,
                    n.disk.hs.commit,
                    n.disk.snap_index,
                    n.disk.last(),
                    n.disk.app.applied
                )),
                Some(l) => {
                    let r = &l.rn.raft;
                    let sn = snap_of(&l.rn);
                    let log: Vec<String> = sn
                        .log
                        .iter()
                        .enumerate()
                        .map(|(k, (t, _, _))| format!("{}:{}", sn.first + k as u64, t))
                        .collect();
                    s.push_str(&format!(
                        "  n{}: {} t={} v={} lead={} commit={} persisted={} applied={} first={} log=[{}] disk[hs=({},{},{}) last={} applied={}] unsynced={} held={}\n",
                        i + 1,
                        role_name(r.state),
                        r.term,
                        r.vote,
                        r.leader_id,
                        sn.committed,
                        sn.persisted,
                        sn.applied,
                        sn.first,
                        log.join(" "),
                        n.disk.hs.term,
                        n.disk.hs.vote,
                        n.disk.hs.commit,
                        n.disk.last(),
                        n.disk.app.applied,
                        l.unsynced.len(),
                        l.held.len(),
                    ));
                }
            }
        }
        for ((f, t), q) in &self.net {
            let ms: Vec<String> = q
                .iter()
                .map(|m| {
                    format!(
                        "{:?}(t{} i{} lt{} c{} n{}{})",
                        m.get_msg_type(),
                        m.term,
                        m.index,
                        m.log_term,
                        m.commit,
                        m.entries.len(),
                        if m.reject { " rej" } else { "" }
                    )
                })
                .collect();
            s.push_str(&format!("  {}->{}: {}\n", f, t, ms.join(", ")));
        }
        s
    }
}

// keep otherwise-unused imports referenced
#[allow(dead_code)]
fn _unused(_: AppState, _: MessageType, _: HardState) {}
