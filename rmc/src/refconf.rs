//! Reference model of the configuration-change algebra (boring sets), used by the
//! C12 component engine and by the C09 cluster monitor.

use raft::eraftpb::{ConfChangeTransition, ConfChangeType, ConfChangeV2, ConfState};
use std::collections::BTreeSet;

#[derive(Clone, Debug, Default, PartialEq, Eq, PartialOrd, Ord, Hash)]
pub struct RefConf {
    pub voters: BTreeSet<u64>,
    pub outgoing: BTreeSet<u64>,
    pub learners: BTreeSet<u64>,
    pub learners_next: BTreeSet<u64>,
    pub auto_leave: bool,
}

#[derive(Clone, Copy, Debug, PartialEq, Eq, PartialOrd, Ord, Hash)]
pub enum Ch {
    AddNode(u64),
    AddLearner(u64),
    Remove(u64),
}

impl RefConf {
    pub fn from_cs(cs: &ConfState) -> RefConf {
        RefConf {
            voters: cs.get_voters().iter().cloned().collect(),
            outgoing: cs.get_voters_outgoing().iter().cloned().collect(),
            learners: cs.get_learners().iter().cloned().collect(),
            learners_next: cs.get_learners_next().iter().cloned().collect(),
            auto_leave: cs.auto_leave,
        }
    }
    pub fn to_cs(&self) -> ConfState {
        let mut cs = ConfState::default();
        cs.set_voters(self.voters.iter().cloned().collect());
        cs.set_voters_outgoing(self.outgoing.iter().cloned().collect());
        cs.set_learners(self.learners.iter().cloned().collect());
        cs.set_learners_next(self.learners_next.iter().cloned().collect());
        cs.auto_leave = self.auto_leave;
        cs
    }
    pub fn joint(&self) -> bool {
        !self.outgoing.is_empty()
    }
    pub fn members(&self) -> BTreeSet<u64> {
        let mut m = self.voters.clone();
        m.extend(self.outgoing.iter());
        m.extend(self.learners.iter());
        m.extend(self.learners_next.iter());
        m
    }
    pub fn is_voter(&self, id: u64) -> bool {
        self.voters.contains(&id) || self.outgoing.contains(&id)
    }

    fn apply(&mut self, chs: &[Ch]) -> Result<(), String> {
        for ch in chs {
            match *ch {
                Ch::AddNode(0) | Ch::AddLearner(0) | Ch::Remove(0) => continue,
                Ch::AddNode(id) => {
                    self.voters.insert(id);
                    self.learners.remove(&id);
                    self.learners_next.remove(&id);
                }
                Ch::AddLearner(id) => {
                    if self.learners.contains(&id) {
                        continue;
                    }
                    self.voters.remove(&id);
                    self.learners_next.remove(&id);
                    if self.outgoing.contains(&id) {
                        self.learners_next.insert(id);
                    } else {
                        self.learners.insert(id);
                    }
                }
                Ch::Remove(id) => {
                    self.voters.remove(&id);
                    self.learners.remove(&id);
                    self.learners_next.remove(&id);
                }
            }
        }
        if self.voters.is_empty() {
            return Err("removed all voters".into());
        }
        Ok(())
    }

    pub fn simple(&self, chs: &[Ch]) -> Result<RefConf, String> {
        if self.joint() {
            return Err("simple in joint".into());
        }
        let mut n = self.clone();
        n.apply(chs)?;
        if n.voters.symmetric_difference(&self.voters).count() > 1 {
            return Err("more than one voter changed".into());
        }
        Ok(n)
    }

    pub fn enter_joint(&self, auto_leave: bool, chs: &[Ch]) -> Result<RefConf, String> {
        if self.joint() {
            return Err("already joint".into());
        }
        if self.voters.is_empty() {
            return Err("zero-voter config".into());
        }
        let mut n = self.clone();
        n.outgoing = n.voters.clone();
        n.apply(chs)?;
        n.auto_leave = auto_leave;
        Ok(n)
    }

    pub fn leave_joint(&self) -> Result<RefConf, String> {
        if !self.joint() {
            return Err("not joint".into());
        }
        let mut n = self.clone();
        let ln: Vec<u64> = n.learners_next.iter().cloned().collect();
        n.learners.extend(ln);
        n.learners_next.clear();
        n.outgoing.clear();
        n.auto_leave = false;
        Ok(n)
    }

    /// The classification RawNode::apply_conf_change documents for a V2 change.
    pub fn apply_v2(&self, cc: &ConfChangeV2) -> Result<RefConf, String> {
        let chs: Vec<Ch> = cc
            .changes
            .iter()
            .map(|c| match c.get_change_type() {
                ConfChangeType::AddNode => Ch::AddNode(c.node_id),
                ConfChangeType::AddLearnerNode => Ch::AddLearner(c.node_id),
                ConfChangeType::RemoveNode => Ch::Remove(c.node_id),
            })
            .collect();
        let tr = cc.get_transition();
        if tr == ConfChangeTransition::Auto && chs.is_empty() {
            self.leave_joint()
        } else if tr != ConfChangeTransition::Auto || chs.len() > 1 {
            let auto_leave = tr != ConfChangeTransition::Explicit;
            self.enter_joint(auto_leave, &chs)
        } else {
            self.simple(&chs)
        }
    }

    /// invariants of C12
    pub fn invariants(&self) -> Result<(), String> {
        for l in &self.learners {
            if self.voters.contains(l) || self.outgoing.contains(l) {
                return Err(format!("{} is learner and voter", l));
            }
        }
        for l in &self.learners_next {
            if !self.outgoing.contains(l) {
                return Err(format!("{} staged learner not in outgoing", l));
            }
        }
        if self.voters.is_empty() {
            return Err("no voter".into());
        }
        if !self.joint() && (!self.learners_next.is_empty() || self.auto_leave) {
            return Err("non-joint config with learners_next/auto_leave".into());
        }
        Ok(())
    }

    fn half_quorum(half: &BTreeSet<u64>, set: &BTreeSet<u64>) -> bool {
        if half.is_empty() {
            return true;
        }
        let c = half.iter().filter(|x| set.contains(x)).count();
        c >= half.len() / 2 + 1
    }
    /// Is `set` a deciding quorum of this configuration?
    pub fn is_quorum(&self, set: &BTreeSet<u64>) -> bool {
        Self::half_quorum(&self.voters, set) && Self::half_quorum(&self.outgoing, set)
    }
}
