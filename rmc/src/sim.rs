//! SimStorage: a plain, cloneable `Storage` with MemStorage semantics plus the
//! application's durable state (applied index, conf state, state-machine digest).
//!
//! One `Store` value is the *visible* layer owned by a RawNode; another one per node
//! is the *durable* image that survives a crash. Writes are `WriteOp`s applied to the
//! visible layer immediately and to the durable layer at fsync time (or a prefix of
//! them at a crash).

use raft::eraftpb::{ConfState, Entry, HardState, Snapshot};
use raft::{Error, GetEntriesContext, RaftState, Result, Storage, StorageError};

#[derive(Clone, Debug, PartialEq, Default)]
pub struct AppState {
    pub applied: u64,
    pub conf: ConfState,
    /// fold of the applied entries (index, term, type, data)
    pub sm: u64,
}

#[derive(Clone, Debug, Default)]
pub struct Store {
    pub hs: HardState,
    pub snap_index: u64,
    pub snap_term: u64,
    /// the storage forgot the term at snap_index (MemStorage::compact keeps no record of the
    /// entry before the new first index); only in the "-memq" scenarios
    pub term_lost: bool,
    /// entries[i].index == snap_index + 1 + i
    pub entries: Vec<Entry>,
    pub app: AppState,
    /// when set, the next async-capable `entries()` call answers LogTemporarilyUnavailable
    pub log_unavailable_once: std::cell::Cell<bool>,
    /// when set, the next `snapshot()` call answers SnapshotTemporarilyUnavailable (the
    /// application is still building the snapshot)
    pub snap_busy_once: std::cell::Cell<bool>,
    pub fetch_ctx: std::cell::Cell<Option<GetEntriesContext>>,
}

// GetEntriesContext has no PartialEq; compare the substantive fields only.
impl PartialEq for Store {
    fn eq(&self, o: &Store) -> bool {
        self.hs == o.hs
            && self.snap_index == o.snap_index
            && self.snap_term == o.snap_term
            && self.term_lost == o.term_lost
            && self.entries == o.entries
            && self.app == o.app
            && self.log_unavailable_once.get() == o.log_unavailable_once.get()
            && self.snap_busy_once.get() == o.snap_busy_once.get()
    }
}

impl Store {
    pub fn new(conf: ConfState) -> Store {
        Store {
            hs: HardState::default(),
            snap_index: 0,
            snap_term: 0,
            term_lost: false,
            entries: vec![],
            app: AppState {
                applied: 0,
                conf,
                sm: 0,
            },
            log_unavailable_once: std::cell::Cell::new(false),
            snap_busy_once: std::cell::Cell::new(false),
            fetch_ctx: std::cell::Cell::new(None),
        }
    }
    #[inline]
    pub fn first(&self) -> u64 {
        self.snap_index + 1
    }
    #[inline]
    pub fn last(&self) -> u64 {
        self.snap_index + self.entries.len() as u64
    }
    pub fn term_of(&self, idx: u64) -> Option<u64> {
        if idx == self.snap_index {
            return Some(self.snap_term);
        }
        if idx < self.first() || idx > self.last() {
            return None;
        }
        Some(self.entries[(idx - self.first()) as usize].term)
    }
    pub fn entry(&self, idx: u64) -> Option<&Entry> {
        if idx < self.first() || idx > self.last() {
            return None;
        }
        Some(&self.entries[(idx - self.first()) as usize])
    }

    pub fn make_snapshot(&self) -> Option<Snapshot> {
        let idx = self.app.applied;
        let term = self.term_of(idx)?;
        let mut s = Snapshot::default();
        let m = s.mut_metadata();
        m.index = idx;
        m.term = term;
        m.set_conf_state(self.app.conf.clone());
        s.data = self.app.sm.to_le_bytes().to_vec().into();
        Some(s)
    }

    /// Applies one write. Panics on contract violations of the *application* (machinery bug).
    pub fn apply_op(&mut self, op: &WriteOp) {
        match op {
            WriteOp::Snapshot(s) => {
                let m = s.get_metadata();
                self.snap_index = m.index;
                self.snap_term = m.term;
                self.term_lost = false;
                self.entries.clear();
                self.hs.term = std::cmp::max(self.hs.term, m.term);
                self.hs.commit = m.index;
                self.app.applied = m.index;
                self.app.conf = m.get_conf_state().clone();
                let mut b = [0u8; 8];
                let d = &s.data[..];
                if d.len() == 8 {
                    b.copy_from_slice(d);
                }
                self.app.sm = u64::from_le_bytes(b);
            }
            WriteOp::Entries(ents) => {
                if ents.is_empty() {
                    return;
                }
                let first = ents[0].index;
                assert!(
                    first >= self.first(),
                    "harness: overwrite compacted entries {} < {}",
                    first,
                    self.first()
                );
                assert!(
                    first <= self.last() + 1,
                    "harness: gap in appended entries {} > {}",
                    first,
                    self.last() + 1
                );
                self.entries.truncate((first - self.first()) as usize);
                self.entries.extend_from_slice(ents);
            }
            WriteOp::Hs(hs) => {
                self.hs = hs.clone();
            }
            WriteOp::Commit(c) => {
                if *c > self.hs.commit {
                    self.hs.commit = *c;
                }
            }
            WriteOp::Applied(a) => {
                self.app = a.clone();
            }
            WriteOp::Compact(idx) => {
                let idx = *idx;
                if idx <= self.snap_index {
                    return;
                }
                assert!(idx <= self.last(), "harness: compact beyond last");
                let t = self.term_of(idx).unwrap();
                let drop = (idx - self.snap_index) as usize;
                self.entries.drain(..drop);
                self.snap_index = idx;
                self.snap_term = t;
            }
            WriteOp::CompactKeep(first) => {
                // MemStorage::compact(first): entries before `first` are discarded and nothing
                // about first-1 is remembered
                if *first <= self.snap_index + 1 {
                    return;
                }
                self.apply_op(&WriteOp::Compact(*first - 1));
                self.term_lost = true;
            }
        }
    }
}

#[derive(Clone, Debug, PartialEq)]
pub enum WriteOp {
    Snapshot(Snapshot),
    Entries(Vec<Entry>),
    Hs(HardState),
    Commit(u64),
    Applied(AppState),
    /// compact the log up to and including this index (index becomes the dummy entry)
    Compact(u64),
    /// MemStorage-style compaction: this index becomes the first index, the term of the entry
    /// before it is forgotten
    CompactKeep(u64),
}

impl Storage for Store {
    fn initial_state(&self) -> Result<RaftState> {
        Ok(RaftState {
            hard_state: self.hs.clone(),
            conf_state: self.app.conf.clone(),
        })
    }

    fn entries(
        &self,
        low: u64,
        high: u64,
        max_size: impl Into<Option<u64>>,
        context: GetEntriesContext,
    ) -> Result<Vec<Entry>> {
        let max_size = max_size.into();
        if low < self.first() {
            return Err(Error::Store(StorageError::Compacted));
        }
        if high > self.last() + 1 {
            panic!(
                "index out of bound (last: {}, high: {})",
                self.last() + 1,
                high
            );
        }
        if self.log_unavailable_once.get() && context.can_async() {
            self.log_unavailable_once.set(false);
            self.fetch_ctx.set(Some(context));
            return Err(Error::Store(StorageError::LogTemporarilyUnavailable));
        }
        if low >= high {
            return Ok(vec![]);
        }
        let lo = (low - self.first()) as usize;
        let hi = (high - self.first()) as usize;
        let mut ents = self.entries[lo..hi].to_vec();
        raft::util::limit_size(&mut ents, max_size);
        Ok(ents)
    }

    fn term(&self, idx: u64) -> Result<u64> {
        if idx == self.snap_index {
            if self.term_lost {
                return Err(Error::Store(StorageError::Compacted));
            }
            return Ok(self.snap_term);
        }
        if idx < self.first() {
            return Err(Error::Store(StorageError::Compacted));
        }
        if idx > self.last() {
            return Err(Error::Store(StorageError::Unavailable));
        }
        Ok(self.entries[(idx - self.first()) as usize].term)
    }

    fn first_index(&self) -> Result<u64> {
        Ok(self.first())
    }

    fn last_index(&self) -> Result<u64> {
        Ok(self.last())
    }

    fn snapshot(&self, request_index: u64, _to: u64) -> Result<Snapshot> {
        if self.snap_busy_once.get() {
            self.snap_busy_once.set(false);
            return Err(Error::Store(StorageError::SnapshotTemporarilyUnavailable));
        }
        match self.make_snapshot() {
            Some(s) if s.get_metadata().index >= request_index && s.get_metadata().index > 0 => {
                Ok(s)
            }
            _ => Err(Error::Store(StorageError::SnapshotTemporarilyUnavailable)),
        }
    }
}
