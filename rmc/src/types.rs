//! Shared plain types: actions, budgets, violations, scenario description.

use std::fmt;

#[derive(Clone, Copy, Debug, PartialEq, Eq, Hash, PartialOrd, Ord)]
pub enum Cut {
    /// no crash
    None,
    /// crash right after `ready()` and the immediate sends, `k` of the Ready's writes durable
    Writes(u8),
    /// crash after fsync, before persisted messages are sent
    AfterFsync,
    /// crash after persisted messages were sent, before apply/advance
    AfterSend,
}

#[derive(Clone, Copy, Debug, PartialEq, Eq, Hash, PartialOrd, Ord)]
pub enum Action {
    Tick(u8),
    Timeout(u8),
    Deliver(u8, u8),
    DeliverK(u8, u8, u8),
    Dup(u8, u8),
    Drop(u8, u8),
    Propose(u8, u8),
    ProposeCc(u8, u8),
    /// one MsgPropose carrying [normal entry, conf change k] stepped at node i
    ProposeMix(u8, u8),
    ReadIndex(u8),
    Transfer(u8, u8),
    Campaign(u8),
    Ready(u8, Cut),
    ReadyAsync(u8),
    /// async: make the first k outstanding readies durable, notify, release their messages
    Persist(u8, u8),
    /// async, loose order: fsync the first k not yet synced readies and send their persisted
    /// messages; the notification (Persist) follows later
    Fsync(u8, u8),
    /// apply-lag mode: apply the next handed-out entry
    ApplyNext(u8),
    /// crash keeping the first `k` unsynced writes
    Crash(u8, u8),
    Restart(u8),
    Compact(u8),
    ReportSnap(u8, u8, bool),
    Unreachable(u8, u8),
    RequestSnap(u8),
    SetCap(u8, u8, u8),
    /// async log fetch: arm LogTemporarilyUnavailable at node / complete the fetch
    ArmFetch(u8),
    Fetched(u8),
    /// the next Storage::snapshot() call at this node answers SnapshotTemporarilyUnavailable
    ArmSnapBusy(u8),
    /// prefix-only: run the cluster FIFO to quiescence (no ticks)
    Settle,
    /// prefix-only: process every pending Ready (and persistence) of one node
    Settle0(u8),
    /// LEASE: tick every node of the lock-step majority once
    LockTick,
    /// LEASE: deliver all traffic inside the lock-step majority to quiescence
    LockDeliver,
    /// prefix-only: drop every in-flight message addressed to / sent by this node
    Isolate(u8),
    /// prefix only: the application changes the node's election priority (Raft::set_priority)
    SetPrio(u8, u8),
    /// prefix only: Settle/Settle0 stop applying handed-out entries (apply-lag nodes) while set
    HoldApply(bool),
    /// prefix-only: drop all in-flight messages
    DropAll,
}

impl fmt::Display for Action {
    fn fmt(&self, f: &mut fmt::Formatter<'_>) -> fmt::Result {
        write!(f, "{:?}", self)
    }
}

macro_rules! counts {
    ($($f:ident),*) => {
        #[derive(Clone, Copy, Debug, Default, PartialEq, Eq, Hash)]
        pub struct Counts { $(pub $f: u8),* }
        impl Counts {
            pub fn write(&self, w: &mut crate::util::W) { $( w.u8(self.$f); )* }
            pub fn to_json(&self) -> serde_json::Value {
                let mut m = serde_json::Map::new();
                $( if self.$f != 0 { m.insert(stringify!($f).to_string(), serde_json::json!(self.$f)); } )*
                serde_json::Value::Object(m)
            }
        }
    }
}
counts!(
    timeouts, ticks, beats, drops, dups, reorders, props, ccs, reads, transfers, campaigns,
    crashes, cuts, compacts, setcaps, unreach, reqsnaps, snapfail, fetches, lazy, snapbusy
);

#[derive(Clone, Debug)]
pub struct Violation {
    pub prop: &'static str,
    /// stable signature (used for known-findings matching and de-duplication)
    pub kind: String,
    pub detail: String,
}

#[derive(Clone, Copy, Debug, PartialEq, Eq)]
pub enum AppMode {
    Sync,
    Async,
}

#[derive(Clone, Debug)]
pub struct NodeCfg {
    pub id: u64,
    pub pre_vote: bool,
    pub check_quorum: bool,
    pub priority: i64,
    pub max_size_per_msg: u64,
    pub max_inflight: usize,
    pub batch_append: bool,
    pub skip_bcast_commit: bool,
    pub max_uncommitted_size: u64,
    pub max_committed_size_per_ready: u64,
    pub max_apply_unpersisted: u64,
    pub lease_read: bool,
    pub disable_forwarding: bool,
    pub election_tick: usize,
    pub heartbeat_tick: usize,
    pub min_election_tick: usize,
    pub max_election_tick: usize,
    pub mode: AppMode,
    pub apply_lag: bool,
    /// async mode only: persisted messages are sent right after fsync, on_persist_ready is
    /// called later (other inputs may be stepped in between)
    pub loose_async: bool,
    /// sync mode: when Ready::must_sync() is false the application does not fsync before
    /// sending and advancing (the hard-state write stays in the page cache)
    pub skip_sync_when_allowed: bool,
    /// applied state is written synchronously to a store of its own (not part of the raft WAL)
    pub split_app_store: bool,
    /// synchronous application that uses `RawNode::advance` + `advance_apply` (the calls of the
    /// crate's examples) instead of `advance_append` + `advance_apply_to`
    pub simple_advance: bool,
    /// this node exists from the start (false: created later by Restart — a spare)
    pub boot: bool,
    /// the node's store starts without a configuration (a freshly created, uninitialised peer:
    /// it learns everything from the first snapshot)
    pub empty_conf: bool,
    /// a restart of this node comes with a changed configuration file: pre_vote is off from
    /// then on (rolling restart that disables pre-vote)
    pub pre_vote_off_on_restart: bool,
    pub group_id: u64,
}

impl NodeCfg {
    pub fn new(id: u64) -> NodeCfg {
        NodeCfg {
            id,
            pre_vote: false,
            check_quorum: false,
            priority: 0,
            max_size_per_msg: raft::NO_LIMIT,
            max_inflight: 256,
            batch_append: false,
            skip_bcast_commit: false,
            max_uncommitted_size: raft::NO_LIMIT,
            max_committed_size_per_ready: raft::NO_LIMIT,
            max_apply_unpersisted: 0,
            lease_read: false,
            disable_forwarding: false,
            election_tick: 3,
            heartbeat_tick: 1,
            min_election_tick: 3,
            max_election_tick: 4,
            mode: AppMode::Sync,
            apply_lag: false,
            loose_async: false,
            skip_sync_when_allowed: false,
            split_app_store: false,
            simple_advance: false,
            boot: true,
            empty_conf: false,
            pre_vote_off_on_restart: false,
            group_id: 0,
        }
    }
}

#[derive(Clone, Debug, PartialEq, Eq)]
pub enum CcSpec {
    /// V1 single change: (type, node): 0 AddNode, 1 RemoveNode, 2 AddLearner
    V1(u8, u64),
    /// V2: transition (0 auto, 1 implicit, 2 explicit), changes
    V2(u8, Vec<(u8, u64)>),
}

#[derive(Clone, Debug)]
pub struct Scenario {
    pub name: String,
    pub nodes: Vec<NodeCfg>,
    pub voters: Vec<u64>,
    pub learners: Vec<u64>,
    pub caps: Counts,
    pub max_term: u64,
    pub max_index: u64,
    /// maximum number of inputs a node may take while a Ready is pending (1 = eager)
    pub inputs_per_ready: u8,
    pub prefix: Vec<Action>,
    pub cc_menu: Vec<CcSpec>,
    pub prop_sizes: Vec<usize>,
    pub transfer_targets: Vec<u8>,
    /// nodes that may crash / be cut
    pub crashable: Vec<u8>,
    /// nodes that may time out / campaign
    pub timeoutable: Vec<u8>,
    /// nodes at which proposals / reads / conf changes may be issued
    pub clients_at: Vec<u8>,
    /// fine-grained Tick actions allowed on these nodes (besides leader beats)
    pub tickable: Vec<u8>,
    pub setcap_values: Vec<u8>,
    /// links on which Drop/Dup/Reorder may be used (empty = all)
    pub fault_links: Vec<(u8, u8)>,
    /// message types (as u8) that Drop/Dup/Reorder may touch (empty = all)
    pub fault_types: Vec<u8>,
    pub max_link: usize,
    /// evaluate has_ready vs ready() on clones and offer bad messages on clones
    pub clone_checks: bool,
    /// C20: offer every public RawNode entry point to a clone in every state
    pub api_probe: bool,
    pub group_commit: bool,
    /// every read request carries the same context bytes (C08's precondition dropped: only the
    /// no-panic property is judged on reads there)
    pub same_read_ctx: bool,
    pub empty_first_ctx: bool,
    /// LEASE: these nodes (leader first) run in lock-step (LockTick / LockDeliver only)
    pub lock_majority: Vec<u8>,
    /// MEMBER: also offer one MsgPropose carrying [normal, conf change]
    pub mix_proposals: bool,
    /// nodes that stay down once crashed (no Restart action)
    pub down_forever: Vec<u8>,
    /// compaction the way MemStorage::compact does it: the applied entry stays as the first
    /// entry and the storage answers Compacted for the term of the entry before it
    pub mem_compact: bool,
    /// LEASE: MsgSnapshot between lock-step nodes never arrives
    pub lock_snap_lost: bool,
    pub note: String,
}

impl Scenario {
    pub fn new(name: &str, n: usize) -> Scenario {
        Scenario {
            name: name.to_string(),
            nodes: (1..=n as u64).map(NodeCfg::new).collect(),
            voters: (1..=n as u64).collect(),
            learners: vec![],
            caps: Counts::default(),
            max_term: 3,
            max_index: 4,
            inputs_per_ready: 1,
            prefix: vec![],
            cc_menu: vec![],
            prop_sizes: vec![1],
            transfer_targets: vec![],
            crashable: vec![],
            timeoutable: (1..=n as u8).collect(),
            clients_at: vec![],
            tickable: vec![],
            setcap_values: vec![],
            fault_links: vec![],
            fault_types: vec![],
            max_link: 8,
            clone_checks: false,
            api_probe: false,
            group_commit: false,
            same_read_ctx: false,
            empty_first_ctx: false,
            lock_majority: vec![],
            mix_proposals: false,
            down_forever: vec![],
            mem_compact: false,
            lock_snap_lost: false,
            note: String::new(),
        }
    }
}

/// Non-vacuity counters.
#[derive(Clone, Copy, Debug, PartialEq, Eq)]
#[repr(usize)]
pub enum Stat {
    CommitAdvances,
    LeadersSeen,
    VotesGranted,
    PreVotesGranted,
    EntriesApplied,
    SnapshotsInstalled,
    SnapshotsSent,
    Truncations,
    ReadStates,
    WindowFull,
    Crashes,
    Restarts,
    MsgsReleased,
    AcksReleased,
    AppendsChecked,
    HeartbeatsChecked,
    ProposalsAccepted,
    ProposalsRefused,
    CcNeutralised,
    CcAccepted,
    ConfApplied,
    ElectionsStarted,
    PreVoteDelivered,
    TransfersStarted,
    TimeoutNowSent,
    ReadyChecked,
    HasReadyCloneChecks,
    BadMsgOffered,
    Panics,
    LinkCapHit,
    ProbePaused,
    SnapshotIgnored,
    SnapshotFastForward,
    LeaseVoteIgnored,
    JointEntered,
    LiveSuffixRuns,
    TermRaises,
    LiveSlowSnapRuns,
    AppliedUnpersisted,
    ApiProbes,
    GroupCommitChecked,
    TalliesChecked,
    SimpleAdvances,
    _N,
}
pub const NSTAT: usize = Stat::_N as usize;
pub const STAT_NAMES: [&str; NSTAT] = [
    "commit_advances",
    "leaders_seen",
    "votes_granted",
    "prevotes_granted",
    "entries_applied",
    "snapshots_installed",
    "snapshots_sent",
    "truncations",
    "read_states",
    "window_full",
    "crashes",
    "restarts",
    "msgs_released",
    "acks_released",
    "appends_checked",
    "heartbeats_checked",
    "proposals_accepted",
    "proposals_refused",
    "cc_neutralised",
    "cc_accepted",
    "conf_applied",
    "elections_started",
    "prevote_delivered",
    "transfers_started",
    "timeout_now_sent",
    "ready_checked",
    "has_ready_clone_checks",
    "bad_msg_offered",
    "panics",
    "link_cap_hit",
    "probe_paused",
    "snapshot_ignored",
    "snapshot_fast_forward",
    "lease_vote_ignored",
    "joint_entered",
    "live_suffix_runs",
    "term_raises",
    "live_slow_snapshot_suffix_runs",
    "entries_handed_out_before_persisted",
    "api_probes_on_clones",
    "group_commits_checked_against_two_groups",
    "election_wins_checked_against_released_grants",
    "ready_rounds_through_advance_and_advance_apply",
];

pub struct Ctx {
    pub viol: Vec<Violation>,
    pub stats: [u64; NSTAT],
    /// verbose trace lines (replay only)
    pub trace: Option<Vec<String>>,
}

impl Ctx {
    pub fn new() -> Ctx {
        Ctx {
            viol: vec![],
            stats: [0; NSTAT],
            trace: None,
        }
    }
    #[inline]
    pub fn stat(&mut self, s: Stat) {
        self.stats[s as usize] += 1;
    }
    pub fn v(&mut self, prop: &'static str, kind: impl Into<String>, detail: impl Into<String>) {
        self.viol.push(Violation {
            prop,
            kind: kind.into(),
            detail: detail.into(),
        });
    }
    #[inline]
    pub fn tr(&mut self, f: impl FnOnce() -> String) {
        if let Some(t) = self.trace.as_mut() {
            t.push(f());
        }
    }
}
