//! `rmc check <property> <tier>`: runs the property's plan (cluster scenarios and/or a
//! component engine), writes /verif/evidence/<id>.json, prints VIOLATION / KNOWN-FINDING
//! lines and returns the exit code (0 held, 1 violation, 2 machinery failure).

use crate::explore::*;
use crate::types::*;
use crate::{components, known, plan, scen};
use serde_json::json;

pub struct CompResult {
    pub engine: String,
    pub states: u64,
    pub transitions: u64,
    pub validated: u64,
    pub exhaustive: bool,
    pub cap_hit: Option<String>,
    pub samples: Vec<serde_json::Value>,
    pub stats: serde_json::Value,
    /// (kind, detail, replay description)
    pub violations: Vec<(String, String, serde_json::Value)>,
    pub nonvacuous: bool,
    pub wall_s: f64,
}

pub fn action_to_string(a: &Action) -> String {
    format!("{:?}", a)
}

pub fn parse_action(s: &str) -> Option<Action> {
    let s = s.trim();
    let (name, rest) = match s.find('(') {
        Some(p) => (&s[..p], s[p + 1..s.rfind(')')?].trim()),
        None => (s, ""),
    };
    // split top-level args
    let mut args: Vec<String> = vec![];
    let mut depth = 0;
    let mut cur = String::new();
    for ch in rest.chars() {
        match ch {
            '(' => {
                depth += 1;
                cur.push(ch)
            }
            ')' => {
                depth -= 1;
                cur.push(ch)
            }
            ',' if depth == 0 => {
                args.push(cur.trim().to_string());
                cur.clear()
            }
            _ => cur.push(ch),
        }
    }
    if !cur.trim().is_empty() {
        args.push(cur.trim().to_string());
    }
    let n = |k: usize| -> Option<u8> { args.get(k)?.parse().ok() };
    let b = |k: usize| -> Option<bool> { args.get(k)?.parse().ok() };
    let cut = |k: usize| -> Option<Cut> {
        let a = args.get(k)?;
        if a == "None" {
            Some(Cut::None)
        } else if a == "AfterFsync" {
            Some(Cut::AfterFsync)
        } else if a == "AfterSend" {
            Some(Cut::AfterSend)
        } else if let Some(x) = a.strip_prefix("Writes(") {
            Some(Cut::Writes(x.trim_end_matches(')').parse().ok()?))
        } else {
            None
        }
    };
    Some(match name {
        "Tick" => Action::Tick(n(0)?),
        "Timeout" => Action::Timeout(n(0)?),
        "Deliver" => Action::Deliver(n(0)?, n(1)?),
        "DeliverK" => Action::DeliverK(n(0)?, n(1)?, n(2)?),
        "Dup" => Action::Dup(n(0)?, n(1)?),
        "Drop" => Action::Drop(n(0)?, n(1)?),
        "Propose" => Action::Propose(n(0)?, n(1)?),
        "ProposeCc" => Action::ProposeCc(n(0)?, n(1)?),
        "ProposeMix" => Action::ProposeMix(n(0)?, n(1)?),
        "ReadIndex" => Action::ReadIndex(n(0)?),
        "Transfer" => Action::Transfer(n(0)?, n(1)?),
        "Campaign" => Action::Campaign(n(0)?),
        "Ready" => Action::Ready(n(0)?, cut(1)?),
        "ReadyAsync" => Action::ReadyAsync(n(0)?),
        "Persist" => Action::Persist(n(0)?, n(1)?),
        "Fsync" => Action::Fsync(n(0)?, n(1)?),
        "ApplyNext" => Action::ApplyNext(n(0)?),
        "Crash" => Action::Crash(n(0)?, n(1)?),
        "Restart" => Action::Restart(n(0)?),
        "Compact" => Action::Compact(n(0)?),
        "ReportSnap" => Action::ReportSnap(n(0)?, n(1)?, b(2)?),
        "Unreachable" => Action::Unreachable(n(0)?, n(1)?),
        "RequestSnap" => Action::RequestSnap(n(0)?),
        "SetCap" => Action::SetCap(n(0)?, n(1)?, n(2)?),
        "ArmFetch" => Action::ArmFetch(n(0)?),
        "ArmSnapBusy" => Action::ArmSnapBusy(n(0)?),
        "Fetched" => Action::Fetched(n(0)?),
        "Settle" => Action::Settle,
        "LockTick" => Action::LockTick,
        "LockDeliver" => Action::LockDeliver,
        "Settle0" => Action::Settle0(n(0)?),
        "Isolate" => Action::Isolate(n(0)?),
        "SetPrio" => Action::SetPrio(n(0)?, n(1)?),
        "HoldApply" => Action::HoldApply(b(0)?),
        "DropAll" => Action::DropAll,
        _ => return None,
    })
}

fn fnv(s: &str) -> u64 {
    let mut h = 0xcbf29ce484222325u64;
    for b in s.bytes() {
        h ^= b as u64;
        h = h.wrapping_mul(0x100000001b3);
    }
    h
}

pub fn write_replay(prop: &str, scen_name: &str, level: u8, path: &[Action], v: &Violation) -> String {
    let _ = std::fs::create_dir_all("/verif/replays");
    let acts: Vec<String> = path.iter().map(action_to_string).collect();
    let h = fnv(&format!("{}{}{:?}", scen_name, v.kind, acts));
    let file = format!("/verif/replays/{}-{:012x}.json", prop, h & 0xffff_ffff_ffff);
    let j = json!({
        "property": prop,
        "engine": "cluster",
        "scenario": scen_name,
        "level": level,
        "actions": acts,
        "kind": v.kind,
        "detail": v.detail,
    });
    let _ = std::fs::write(&file, serde_json::to_string_pretty(&j).unwrap());
    file
}

pub fn write_comp_replay(prop: &str, engine: &str, kind: &str, detail: &str, ops: &serde_json::Value) -> String {
    let _ = std::fs::create_dir_all("/verif/replays");
    let h = fnv(&format!("{}{}{}", engine, kind, ops));
    let file = format!("/verif/replays/{}-{:012x}.json", prop, h & 0xffff_ffff_ffff);
    let j = json!({
        "property": prop,
        "engine": engine,
        "kind": kind,
        "detail": detail,
        "ops": ops,
    });
    let _ = std::fs::write(&file, serde_json::to_string_pretty(&j).unwrap());
    file
}

pub fn run_replay(file: &str) -> i32 {
    let Ok(s) = std::fs::read_to_string(file) else {
        eprintln!("cannot read {}", file);
        return 2;
    };
    let Ok(j) = serde_json::from_str::<serde_json::Value>(&s) else {
        eprintln!("bad json in {}", file);
        return 2;
    };
    let engine = j["engine"].as_str().unwrap_or("cluster");
    if engine != "cluster" {
        return components::replay(engine, &j);
    }
    let name = j["scenario"].as_str().unwrap_or("");
    let level = j["level"].as_u64().unwrap_or(1) as u8;
    let Some(sc) = scen::build(name, level) else {
        eprintln!("unknown scenario {}", name);
        return 2;
    };
    let mut sc = sc;
    let prop0 = j["property"].as_str().unwrap_or("");
    if plan::clone_checks_for(prop0) {
        sc.clone_checks = true;
    }
    let sc = scen::leak(sc);
    let mut path = vec![];
    for a in j["actions"].as_array().cloned().unwrap_or_default() {
        match a.as_str().and_then(parse_action) {
            Some(x) => path.push(x),
            None => {
                eprintln!("cannot parse action {:?}", a);
                return 2;
            }
        }
    }
    let hook = plan::state_hook_for(prop0, name);
    let r1 = replay(sc, &path, true, hook);
    let r2 = replay(sc, &path, false, hook);
    for l in &r1.trace {
        println!("{}", l);
    }
    if r1.keys != r2.keys {
        println!("MACHINERY ERROR: two replays of the same path diverged");
        return 2;
    }
    let prop = j["property"].as_str().unwrap_or("");
    let mut hit = false;
    for (k, v) in &r1.viol {
        println!("violation at step {}: {} [{}] {}", k, v.prop, v.kind, v.detail);
        if v.prop == prop {
            hit = true;
        }
    }
    if hit {
        println!("VIOLATION property={} replay={}", prop, file);
        1
    } else {
        println!("no violation of {} on this replay", prop);
        0
    }
}

fn budget_for(tier: &str) -> f64 {
    if let Ok(v) = std::env::var("VERIF_BUDGET_S") {
        if let Ok(x) = v.parse::<f64>() {
            return x;
        }
    }
    if tier == "thorough" {
        720.0
    } else {
        40.0
    }
}

pub fn run_check(prop: &'static str, tier: &str, threads: usize, seed: u64) -> i32 {
    let t0 = std::time::Instant::now();
    let budget = budget_for(tier);
    let p = plan::plan_for(prop, tier);
    let mut exit = 0;
    let mut total_states = 0u64;
    let mut total_trans = 0u64;
    let mut total_valid = 0u64;
    let mut stats = [0u64; NSTAT];
    let mut per = vec![];
    let mut samples: Vec<serde_json::Value> = vec![];
    let mut all_exhaustive = true;
    let mut violations = 0;
    let mut known_lines: Vec<String> = vec![];
    let mut caps: Vec<String> = vec![];
    let mut completed_any = false;
    let mut comp_nonvacuous = true;

    // ---- component engines
    for eng in &p.components {
        let remaining = (budget - t0.elapsed().as_secs_f64()).max(5.0);
        let r = components::run(eng, tier, seed, remaining, threads);
        total_states += r.states;
        total_trans += r.transitions;
        total_valid += r.validated;
        all_exhaustive &= r.exhaustive;
        completed_any |= r.exhaustive;
        comp_nonvacuous &= r.nonvacuous;
        if let Some(c) = &r.cap_hit {
            caps.push(format!("{}: {}", r.engine, c));
        }
        samples.extend(r.samples.iter().take(3).cloned());
        per.push(json!({
            "engine": r.engine, "states": r.states, "transitions": r.transitions,
            "exhaustive": r.exhaustive, "cap_hit": r.cap_hit, "stats": r.stats, "wall_s": r.wall_s,
        }));
        for (kind, detail, ops) in &r.violations {
            let v = Violation {
                prop,
                kind: kind.clone(),
                detail: detail.clone(),
            };
            if let Some(k) = known::find(&v) {
                let line = format!("KNOWN-FINDING: property={} {} ({})", prop, k.what, kind);
                if !known_lines.contains(&line) {
                    known_lines.push(line);
                }
            } else {
                violations += 1;
                let f = write_comp_replay(prop, &r.engine, kind, detail, ops);
                println!("  {} [{}] {}", prop, kind, detail);
                println!("VIOLATION property={} replay={}", prop, f);
                exit = 1;
            }
        }
    }

    // ---- search self-check (thorough): the first level explored twice with different root
    // orders must give identical state and transition counts
    let mut self_check: Option<serde_json::Value> = None;
    if tier == "thorough" {
        if let Some((name, level)) = p.scenarios.first() {
            if let Some(mut sc) = scen::build(name, *level) {
                if plan::clone_checks_for(prop) {
                    sc.clone_checks = true;
                }
                let sc = scen::leak(sc);
                let mk = |seed: u64| RunCfg {
                    threads,
                    budget_s: 120.0,
                    max_states: 600_000_000,
                    depth_cap: 400,
                    seed,
                    targets: vec![],
                    rss_cap_gb: 45.0,
                    state_hook: None,
                };
                let a = explore(sc, &mk(seed.wrapping_add(1)));
                let b = explore(sc, &mk(seed.wrapping_add(7919)));
                if a.exhaustive && b.exhaustive && (a.states != b.states || a.transitions != b.transitions) {
                    eprintln!(
                        "machinery: search self-check failed on {}: ({}, {}) vs ({}, {})",
                        a.scenario, a.states, a.transitions, b.states, b.transitions
                    );
                    return 2;
                }
                self_check = Some(json!({"scenario": a.scenario, "states": [a.states, b.states], "transitions": [a.transitions, b.transitions], "agree": a.states == b.states && a.transitions == b.transitions}));
            }
        }
    }

    // ---- cluster scenarios, level by level
    let n_scen = p.scenarios.len();
    for (k, (name, level)) in p.scenarios.iter().enumerate() {
        if exit == 1 {
            break;
        }
        let remaining = budget - t0.elapsed().as_secs_f64();
        // thorough: no single level may eat more than half of what is left while further
        // levels are waiting (a level that is cut is reported as such, never as exhaustive)
        let level_budget = if tier == "thorough" && k + 1 < n_scen { remaining * 0.5 } else { remaining };
        if remaining < 3.0 && completed_any {
            per.push(json!({"scenario": format!("{}/L{}", name, level), "skipped": "time budget exhausted"}));
            all_exhaustive = false;
            continue;
        }
        let Some(sc) = scen::build(name, *level) else {
            eprintln!("machinery: unknown scenario {}", name);
            return 2;
        };
        let mut sc = sc;
        if plan::clone_checks_for(prop) {
            sc.clone_checks = true;
        }
        let sc = scen::leak(sc);
        let cfg = RunCfg {
            threads,
            budget_s: level_budget.max(5.0),
            max_states: 600_000_000,
            depth_cap: 400,
            seed,
            targets: vec![prop],
            rss_cap_gb: 45.0,
            state_hook: plan::state_hook_for(prop, name),
        };
        let r = explore(sc, &cfg);
        if let Some(e) = &r.machinery_error {
            eprintln!("machinery error in {}: {}", r.scenario, e);
            return 2;
        }
        total_states += r.states;
        total_trans += r.transitions;
        total_valid += r.validated;
        for k in 0..NSTAT {
            stats[k] += r.stats[k];
        }
        all_exhaustive &= r.exhaustive;
        completed_any |= r.exhaustive;
        if let Some(c) = &r.cap_hit {
            caps.push(format!("{}: {}", r.scenario, c));
        }
        for sp in r.samples.iter().take(2) {
            samples.push(json!({"scenario": r.scenario, "actions": sp.iter().map(action_to_string).collect::<Vec<_>>()}));
        }
        let mut other = vec![];
        for f in &r.found {
            if f.v.prop != prop {
                other.push(format!("{} [{}] x{}", f.v.prop, f.v.kind, f.count));
                // informational only: the check of that property decides it (its own ladder
                // or tools/cross_sweep.py); a check never reports another property's verdict
                if known::find(&f.v).is_none() {
                    println!(
                        "NOTE: while checking {} in {}, a monitor of {} fired: [{}] x{} (not a verdict of this check)",
                        prop, r.scenario, f.v.prop, f.v.kind, f.count
                    );
                }
                continue;
            }
            if let Some(k) = known::find(&f.v) {
                let line = format!("KNOWN-FINDING: property={} {} ({})", prop, k.what, f.v.kind);
                if !known_lines.contains(&line) {
                    known_lines.push(line);
                }
                continue;
            }
            violations += 1;
            let short = shrink(sc, &f.path, f.v.prop, &f.v.kind, cfg.state_hook);
            let file = write_replay(prop, name, *level, &short, &f.v);
            println!("  {} [{}] x{}: {}", prop, f.v.kind, f.count, f.v.detail);
            println!("VIOLATION property={} replay={}", prop, file);
            exit = 1;
        }
        per.push(json!({
            "scenario": r.scenario, "states": r.states, "transitions": r.transitions,
            "max_depth": r.max_depth, "dead_branches": r.dead_branches,
            "traces_revalidated": r.validated, "exhaustive": r.exhaustive,
            "cap_hit": r.cap_hit, "wall_s": (r.wall_s * 10.0).round() / 10.0,
            "other_property_observations": other,
            "caps": sc.caps.to_json(), "max_term": sc.max_term, "max_index": sc.max_index,
        }));
        println!(
            "  {}: states={} transitions={} exhaustive={} cap={:?} {:.1}s",
            r.scenario, r.states, r.transitions, r.exhaustive, r.cap_hit, r.wall_s
        );
    }
    for l in &known_lines {
        println!("{}", l);
    }

    // ---- non-vacuity: the monitor of the claimed property must have seen its case
    let mut stat_json = serde_json::Map::new();
    for k in 0..NSTAT {
        if stats[k] > 0 {
            stat_json.insert(STAT_NAMES[k].to_string(), json!(stats[k]));
        }
    }
    let mut vacuous = vec![];
    if !p.scenarios.is_empty() && exit == 0 {
        for s in &p.required_stats {
            if stats[*s as usize] == 0 {
                vacuous.push(STAT_NAMES[*s as usize]);
            }
        }
    }
    if !comp_nonvacuous {
        vacuous.push("component engine reported a vacuous run");
    }
    if samples.is_empty() {
        samples.push(json!({"note": "start state only"}));
    }
    let wall = t0.elapsed().as_secs_f64();
    let ev = json!({
        "property_id": prop,
        "tier": tier,
        "seed": seed,
        "level": "model_checking",
        "coverage": {
            "states": total_states.max(1),
            "transitions": total_trans.max(1),
            "traces_validated_against_impl": total_valid,
            "samples": samples,
            "exhaustive": all_exhaustive && exit == 0,
            "runs": per,
            "caps_hit": caps,
            "monitor_counters": stat_json,
            "explanation": p.explanation,
            "known_findings_reported": known_lines,
            "search_self_check": self_check,
        },
        "assumptions": p.assumptions,
        "wall_s": (wall * 10.0).round() / 10.0,
        "violations": violations,
    });
    let evdir = std::env::var("VERIF_EVIDENCE_DIR").unwrap_or_else(|_| "/verif/evidence".to_string());
    let _ = std::fs::create_dir_all(&evdir);
    if let Err(e) = std::fs::write(
        format!("{}/{}.json", evdir, prop),
        serde_json::to_string_pretty(&ev).unwrap(),
    ) {
        eprintln!("machinery: cannot write evidence: {}", e);
        return 2;
    }
    println!(
        "{} {}: states={} transitions={} validated={} exhaustive={} violations={} wall={:.1}s",
        prop,
        tier,
        total_states,
        total_trans,
        total_valid,
        all_exhaustive && exit == 0,
        violations,
        wall
    );
    if exit == 0 && !vacuous.is_empty() {
        eprintln!("machinery: vacuous run, monitor counters at zero: {:?}", vacuous);
        return 2;
    }
    exit
}
