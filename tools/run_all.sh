#!/bin/bash
# tools/run_all.sh [quick|thorough] [ids...]: run the checks and summarise
tier=${1:-quick}; shift
ids=${@:-C01 C02 C03 C04 C05 C06 C07 C08 C09 C10 C11 C12 C13 C14 C15 C16 C17 C18 C19 C20}
cd /verif
for p in $ids; do
  s=$(date +%s)
  out=$(./check $p $tier 2>&1); code=$?
  e=$(( $(date +%s) - s ))
  echo "$p exit=$code ${e}s | $(echo "$out" | tail -1 | cut -c1-160)"
  echo "$out" | grep -E "VIOLATION|KNOWN-FINDING|machinery" | cut -c1-200
done
