#!/usr/bin/env python3
"""Runs every (scenario, level) named in any ladder of rmc/src/plan.rs with `rmc explore` and lists
every violation of ANY property that is not a known finding (a property's own check reports only
that property's violations). Usage: cross_sweep.py [budget_s] [threads]"""
import re, subprocess, sys
budget = sys.argv[1] if len(sys.argv) > 1 else "20"
threads = sys.argv[2] if len(sys.argv) > 2 else "8"
src = open('/verif/rmc/src/plan.rs').read()
pairs = sorted(set(re.findall(r'\("([a-z0-9\-]+)", (\d+)\)', src)))
bad = 0
for name, lvl in pairs:
    args = ['/verif/target/release/rmc', 'explore', name, lvl, '--budget', budget, '--threads', threads]
    if name.endswith('-live'):
        args.append('--live')
    out = subprocess.run(args, capture_output=True, text=True).stdout
    head = [l for l in out.splitlines() if l.startswith('scenario=')]
    found = [l.strip() for l in out.splitlines() if l.strip().startswith('FOUND') and 'known=false' in l]
    print((head[0][:110] if head else f'{name}/{lvl}: no output'), flush=True)
    for f in found:
        bad += 1
        print('   ' + f[:260], flush=True)
print('unlisted violations:', bad)
