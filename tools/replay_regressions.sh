#!/bin/bash
# Replays the recorded shortest schedules of the repaired findings (regressions/*.json) against the
# current /repo tree; every one must end with "no violation". (Auxiliary: the registered checks
# explore the scenarios these schedules come from anyway.)
cd /verif/rmc && cargo build --release --offline >/dev/null 2>&1 || exit 2
rc=0
for f in /verif/regressions/*.json; do
  out=$(/verif/target/release/rmc replay $f 2>&1 | tail -1)
  echo "$(basename $f): $out"
  case "$out" in "no violation"*) ;; *) rc=1;; esac
done
exit $rc
