#!/usr/bin/env python3
"""Regenerates /verif/MANIFEST.json from properties.jsonl and the table below."""
import json, subprocess
props=[json.loads(l) for l in open('/verif/properties.jsonl')]
NOT_APPLICABLE = {
    # "C14": "component engine under construction",
}
import sys
for a in sys.argv[1:]:
    k,_,v=a.partition('=')
    NOT_APPLICABLE[k]=v
TECH = {
 'cluster': "explicit-state model checking of the implementation: parallel depth-first search over canonical 128-bit state keys of a world of real RawNode<SimStorage> objects, every transition executes the real code, monitors on every API call / message release / state",
 'component': "explicit-state model checking of the implementation: joint breadth-first search over (real component, reference model) pairs under every operation of a small alphabet until fixpoint",
 'enumeration+cluster': "exhaustive enumeration of a finite input space of the real functions against the definitional oracle (stateless degenerate case of explicit-state search), plus explicit-state model checking of the implementation on cluster worlds (parallel depth-first search over canonical state keys of real RawNode<SimStorage> objects, monitors after every call)",
 'component+cluster': "explicit-state model checking of the implementation: joint breadth-first search over (real component, reference model) pairs under every operation of a small alphabet until fixpoint, plus parallel depth-first search over canonical state keys of cluster worlds of real RawNode<SimStorage> objects with monitors after every call",
 'enumeration': "exhaustive enumeration of a finite input space of the real functions against the definitional oracle (stateless degenerate case of explicit-state search)",
}
KIND = {'C11':'enumeration+cluster','C12':'component+cluster','C14':'component','C18':'component','C19':'component'}
TEXT = {
 'C01':"every reachable state of bounded FIG8 / SNAP / MEMBER / CRASH worlds (all interleavings of ticks, deliveries, drops, duplicates, proposals, crashes within the listed caps) satisfies the committed-log registry",
 'C02':"every reachable state of bounded ELECT (pre_vote x check_quorum, stale logs), STALE, MEMBER, LAG2 (two successive voter additions), CRASH, XFER worlds has at most one leader per term (one recorded finding)",
 'C03':"every leader state and every generated (pre-)vote grant in bounded FIG8 / ELECT / XFER worlds satisfies completeness and the up-to-date rule",
 'C04':"every commit-index advance in bounded REPL / CRASH (sync, async strict and loose order) / MEMBER(joint) / FIG8 worlds is backed by durable copies on a quorum of each half",
 'C05':"log matching, leader append-only and committed-prefix immutability hold after every API call in bounded FIG8 / REPL (batching, size limits, divergent tails) / CRASH worlds",
 'C06':"every released message in bounded CRASH / STALE / ELECT-stale worlds over every crash cut of the Ready round (sync, async strict/loose, lazy, fsync skipped when must_sync is false) is covered by the durable disk; one vote per term across incarnations",
 'C07':"every Ready of every legal RawNode call history in bounded CRASH / REPL / SNAP / ELECT worlds satisfies the application-side cursor model; has_ready() agrees with ready() on a clone in every state",
 'C08':"every ReadState in bounded READ worlds (stale leaders, duplicated/dropped heartbeats, quorum-shrinking conf change) carries an index >= the highest commit index at issue time and returns at the issuer",
 'C09':"every conf-change proposal (single and batched), election start and applied membership entry in bounded MEMBER worlds satisfies the filter relation and the reference configuration fold",
 'C10':"bounded convergence: from every distinct state of reduced FIG8 / SNAP / FLOW / MEMBER / XFER / STALE prefix spaces the deterministic fault-free suffix converges under at least one of three election-timeout schedulers",
 'C11':"complete enumeration of majority and joint configurations (0-9 voters), acked-index vectors, vote maps and group assignments; plus bounded cluster worlds (group commit on; elections; joint membership) in which every leader commit is durable in two groups when every voter has one and every election win is backed by released vote grants of a majority of each voter set",
 'C12':"every configuration over a small id universe and every change list through simple / enter_joint / leave_joint / restore; plus bounded MEMBER / SNAP cluster worlds in which every node's tracker holds progress for exactly the members of its configuration after every call",
 'C13':"every generated MsgAppend / MsgHeartbeat and every proposal in bounded FLOW / REPL worlds satisfies the window model, well-formedness and the uncommitted-bytes ghost",
 'C14':"every operation history of RaftLog/Unstable within value bounds agrees with a plain sequence model on every observer",
 'C15':"every MsgSnapshot delivery, status report and snapshot send in bounded SNAP worlds satisfies the install / ignore / fast-forward post-conditions",
 'C16':"term/vote unchanged over every delivered pre-vote request; every term raise with pre_vote justified; in bounded LEASE worlds no behaviour of the minority disturbs the lock-step majority",
 'C17':"every MsgTimeoutNow, proposal during a transfer, leader tick and transfer request in bounded XFER worlds satisfies the hand-off rules",
 'C18':"every operation sequence on Inflights within bounds agrees with a bounded-FIFO model",
 'C19':"every mutation history of MemStorage within documented preconditions agrees with the snapshot-point + entries model on every query",
 'C20':"no API call panics in any explored execution of the union of the scenario spaces (incl. lazy, async strict/loose, single-voter groups, removed peers); bad messages offered on clones are rejected without state change",
}
checks=[]
for p in props:
    pid=p['id']
    if pid in NOT_APPLICABLE: continue
    kind=KIND.get(pid,'cluster')
    checks.append({
      "property_id":pid,
      "quick_cmd":f"./check {pid} quick",
      "thorough_cmd":f"./check {pid} thorough",
      "evidence_file":f"/verif/evidence/{pid}.json",
      "replay_cmd_template":"./check replay {path}",
      "engine":"rmc",
      "level_claimed":{"category":"model_checking","text":"exhaustive within the listed bounds: "+TEXT[pid]+"; the run reports which ladder levels completed (exhaustive) and which were cut by the time budget","design_ref":"DESIGN.md §4 "+pid},
      "level_note":"small-scope bounds (cluster size, terms, log length, per-kind fault/client budgets, value bounds) listed in the evidence file; the simulated application is the documented Ready/advance contract (DESIGN.md §2.4); crashes keep a prefix of unsynced writes; hooks under cfg(tikv_raft_rs_verif) are additive (Clone, read-only views, deterministic election timeout)",
      "technique":TECH[kind],
    })
hooks=subprocess.check_output(['git','-C','/repo','log','--format=%H %s']).decode().splitlines()
hook_commits=[l.split()[0] for l in hooks if 'verif hook' in l]
m={
 "version":1,
 "setup_cmd":"cd /verif/rmc && CARGO_NET_OFFLINE=true cargo build --release --offline",
 "hooks":{"guard":"tikv_raft_rs_verif","enable":"rustflags = [\"--cfg\", \"tikv_raft_rs_verif\"] in /verif/rmc/.cargo/config.toml; raft is a path dependency on /repo, so every check rebuilds the current working tree","baseline_off_cmd":"cd /repo && cargo test --workspace --no-fail-fast --offline","source_commits":hook_commits,"add_only":True},
 "engines":[{"name":"rmc","path":"/verif/rmc","serves_properties":[c['property_id'] for c in checks],"kind_free_text":"explicit-state model checker written for this repository: cluster explorer (real RawNode<SimStorage> worlds, parallel DFS, canonical keys, inline monitors, replay/shrink) plus component engines (joint BFS of implementation x reference model)"}],
 "checks":checks,
 "not_applicable":[{"property_id":k,"reason":v} for k,v in NOT_APPLICABLE.items()],
 "notes":"./check <id> quick|thorough; ./check replay <file>; exit 0 held / 1 VIOLATION / 2 machinery failure. Known findings: /verif/known_findings.json. Seeded changes used to test detection: /verif/seeded/. VERIF_BUDGET_S overrides the exploration budget (quick 40 s, thorough 720 s)."
}
json.dump(m,open('/verif/MANIFEST.json','w'),indent=1)
print("claimed",len(checks),"not applicable",list(NOT_APPLICABLE))
